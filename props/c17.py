"""C17 - no silent truncation: long lines and large files are processed completely."""
import propcheck

LOOPS = [('regex/parser.VerifC17Parse', 'Parser.Parse', 'C17-parser-scanner-truncates'),
         ('util.VerifC17Yaml', 'processYaml', 'C17-renumber-scanner-truncates'),
         ('chore.VerifC17Copyright', 'updateRules', 'C17-copyright-scanner-truncates'),
         ('cmd.VerifC17Format', 'format', 'C17-format-scanner-truncates'),
         ('cmd.VerifC17Update', 'update', None)]


def exclude(ctx, ob):
    if ob.kind != 'assert':
        return {}
    for h, key, kid in LOOPS:
        if kid and (key + ':') in ob.name:
            return {kid: True}
    return {}


def main(tier):
    ck = propcheck.Check('C17', tier)
    K = 4 if tier == 'quick' else 5
    ck.assumptions += ['bufio.Scanner modelled by its contract: with the default buffer a line longer than 64 KiB makes Scan return false and Err() non-nil; a call to Scanner.Buffer() raises the threshold of the model',
                       'the long line is a sentinel line at a SYMBOLIC position 0..K-1 in a file of K lines (for processYaml and format the position is enumerated per job instead: the symbolic-position query did not finish within the time limit); file contents are otherwise fixed; bytes.Split based readers (update, compare) have no such limit',
                       'memory exhaustion on huge inputs is outside the check']
    jobs = []
    for h, _, _ in LOOPS:
        for k in range(1, K + 1):
            if h in ('util.VerifC17Yaml', 'cmd.VerifC17Format'):
                # position enumerated for these two readers (the symbolic-position query does not finish in time)
                for pos in range(k):
                    jobs.append((h, dict(params={'lines': k, 'long': pos}, unwind=230, exclude=exclude, timeout_ms=60000, terminal_obligations=(), hooks={'fixed_map_order': True})))
            else:
                jobs.append((h, dict(params={'lines': k, 'long': -1}, unwind=230, exclude=exclude, timeout_ms=60000, terminal_obligations=(), hooks={'fixed_map_order': True})))
    rs, viol = ck.run('scanner-loops', jobs, bounds={'lines': '1..%d' % K, 'long_line_position': 'symbolic', 'readers': [x[1] for x in LOOPS]})
    ck.triage(viol)
    return ck.finish()
