"""C12 - after update, compare reports the rule as unchanged, and vice versa."""
import propcheck
import c11
from sym import *


def exclude(ctx, ob):
    out = {'C12-operand-contains-rx-marker': c11.sig_marker_term(ctx)}
    s = c11._nd(ctx, 'new')
    if s is not None and ob.kind == 'panic':
        out['C12-operand-mentions-own-rule-id'] = s_contains(s, b'id:932100')
    return out


def main(tier):
    ck = propcheck.Check('C12', tier)
    ck.assumptions += ['operands are printable ASCII satisfying the C02 output invariants', 'rules file in CRS layout (see C11)',
                       'round trip decomposed: C11 shows update writes head+R+rest; here: reading head+R+rest yields R, and updating head+R+rest with R is the identity']
    for h, grp in (('VerifC12ReadBack', 'read-back'), ('VerifC12SecondUpdate', 'second-update')):
        jobs, bounds = c11.jobs_update(tier, h, exclude, with_old=False)
        rs, viol = ck.run(grp, jobs, bounds=bounds)
        ck.triage(viol)
    jobs = [('cmd.VerifC12CompareAll', dict(params={'stale': st, 'github': gh}, unwind=60, timeout_ms=120000, terminal_obligations=(), hooks={'fixed_map_order': True}))
            for st in range(4) for gh in (0, 1)]
    rs, viol = ck.run('compare-all', jobs, bounds={'rules': 3, 'stale_rule_position': 'first | middle | last | none', 'output': ['text', 'github']})
    ck.triage(viol)
    return ck.finish()
