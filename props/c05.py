"""C05 - including a file is the same as typing its lines in place (translation validation + reference inlining)."""
import propcheck
import tv
import c01

INC = 'regex-assembly/include/'
EXC = 'regex-assembly/exclude/'

INCLUDE_FILES = {
    'plain': {INC + 'f.ra': 'foo\nbar\n'},
    'messy': {INC + 'f.ra': '##! a comment\n\n  foo\n\tbar\n\n'},
    'prefix': {INC + 'f.ra': '##!^ p\nfoo\nbar\n'},
    'suffix': {INC + 'f.ra': '##!$ s\nfoo\nbar\n'},
    'both': {INC + 'f.ra': '##!^ p\n##!$ s\nfoo\nbar\n'},
    'prefix-trailing-blank': {INC + 'f.ra': '##!^ p\nunion\nselect \n'},
    'suffix-trailing-tab': {INC + 'f.ra': '##!$ s\nfoo\nbar\t\n'},
    'own-defs': {INC + 'f.ra': '##!> define d [0-9]\nx{{d}}\ny{{d}}+\n'},
    'nested': {INC + 'f.ra': '##!> include g\nbaz\n', INC + 'g.ra': 'qux\nquux\n'},
    'nested-prefix': {INC + 'f.ra': '##!> include g\nbaz\n', INC + 'g.ra': '##!^ p\nqux\n'},
    'in-exclude-dir': {EXC + 'f.ra': 'foo\nbar\n'},
    'alternation-entry': {INC + 'f.ra': 'a|b\nc\n'},
}
POSITIONS = {
    'top': 'a\n##!> include %s\nb\n',
    'top-first': '##!> include %s\nb\n',
    'assemble': '##!> assemble\n##!> include %s\nx\n##!<\nq\n',
    'after-marker': 'a\n##!=>\n##!> include %s\n##!=>\nz\n',
    'cmdline': '##!> cmdline unix\n##!> include %s\nls\n##!<\n',
    'with-parent-prefix': '##!^ P\n##!> include %s\nb\n',
}
CFG_YAML = 'patterns:\n  anti_evasion:\n    unix: "[x]*"\n    windows: "[y]*"\n  anti_evasion_suffix:\n    unix: "(?:\\\\s|$)"\n    windows: "[z]"\n  anti_evasion_no_space_suffix:\n    unix: "(?:[<>]|$)"\n    windows: "[w]"\n'
CFG = {'anti_evasion': {'unix': '[x]*', 'windows': '[y]*'}, 'anti_evasion_suffix': {'unix': '(?:\\s|$)', 'windows': '[z]'},
       'anti_evasion_no_space_suffix': {'unix': '(?:[<>]|$)', 'windows': '[w]'}}


def k_block_in_cmdline(p):
    """known: an assemble block (here: an include that carries prefixes/suffixes) nested in a cmdline block gets
    the evasion patterns interleaved into its regex text"""
    return 'cmdline' in p['tags'] and any(t in p['tags'] for t in ('prefix', 'suffix', 'both', 'prefix-trailing-blank', 'suffix-trailing-tab', 'nested-prefix'))


def family(tier):
    progs = []
    for fname, files in INCLUDE_FILES.items():
        for pname, tmpl in POSITIONS.items():
            for ref in (('f', 'f.ra') if (tier != 'quick' or fname == 'plain') else ('f',)):
                fs = dict(files)
                fs['regex-assembly/toolchain.yaml'] = CFG_YAML
                progs.append({'src': tmpl % ref, 'files': fs, 'cfg': CFG, 'tags': [fname, pname]})
    # definitions must not leak between the including file and the include, in either direction
    leak = [
        ('parent-def-before', '##!> define d X\n##!> include f\n{{d}}\n', {INC + 'f.ra': '##!> define d [0-9]\nx{{d}}\n'}),
        ('parent-def-after', '##!> include f\n{{d}}1\n##!> define d Y\n', {INC + 'f.ra': '##!> define d [a-c]\nx{{d}}\n'}),
        ('siblings-same-name', '##!> include f\n##!> include g\n', {INC + 'f.ra': '##!> define sep [/]\nx{{sep}}y\n', INC + 'g.ra': '##!> define sep [-]\np{{sep}}q\n'}),
        ('parent-uses-include-only-name', '##!> include f\nz{{d}}\n', {INC + 'f.ra': '##!> define d [0-9]\nx{{d}}\n'}),
        ('flags-in-include', '##!> include f\nb\n', {INC + 'f.ra': '##!+ i\nfoo\n'}),
    ]
    for name, src, files in leak:
        fs = dict(files)
        fs['regex-assembly/toolchain.yaml'] = CFG_YAML
        progs.append({'src': src, 'files': fs, 'cfg': CFG, 'tags': [name, 'definitions']})
    return progs


def main(tier):
    ck = propcheck.Check('C05', tier, level='translation_validation')
    ck.assumptions += ['include files x positions x surrounding programs ENUMERATED; the comparison of the real output with the inlined reference is one solver query over all subject strings per program',
                       'reference inlines F\'s entries at the directive, expands F\'s own definitions inside F only, and renders F\'s prefixes/suffixes as a local assemble block; a flags line in F must be rejected',
                       'rassemble-go / regexp/syntax run concretely (not encoded)']
    progs = family(tier)
    rows = c01.run_tv(ck, progs, 'includes')
    # a flags line in an include must be rejected (pipeline dies) - that is agreement, not a finding
    for p, r in zip(progs, rows):
        if 'flags-in-include' in p['tags']:
            if r['status'] in ('died', 'ref-rejects'):
                r['status'] = 'equal'
            else:
                r['status'] = 'differ-empty'
                r['detail'] = 'an include file with a flags line was accepted'
    c01.triage_tv(ck, progs, rows, [('C05-block-nested-in-cmdline-gets-evasion-interleaved', k_block_in_cmdline)], 'C05')
    stats = {}
    for r in rows:
        stats[r['status']] = stats.get(r['status'], 0) + 1
    samples = [{'program': p['src'], 'files': {k: v for k, v in p['files'].items() if not k.endswith('.yaml')}, 'printed': r.get('out'), 'reference': r.get('ref'), 'verdict': r['status']}
               for p, r in list(zip(progs, rows))[::max(1, len(progs) // 6)][:6]]
    ck.samples = samples
    return ck.finish(coverage_extra={'programs': len(progs), 'disagreements_checked': sum(v for k, v in stats.items() if k not in ('equal',)), 'samples': samples, 'status_counts': stats},
                     rule='one evaluation = one including program compiled by the real pipeline and compared (one solver query over all subject strings) with the reference in which the include is inlined')
