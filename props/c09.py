"""C09 - format produces one canonical layout and is idempotent; --check agrees with it."""
import itertools
import propcheck
from sym import *


def _nd(ctx, tag):
    for t, kind, v in ctx.nondets:
        if t == tag:
            return v
    return None


def sig_blank_file(ctx):
    """known finding: a file without any content (empty, or only blank / white-space-only lines)"""
    p = ctx.hooks['params']
    if p.get('hdr'):
        return False
    conds = []
    for i in range(p.get('lines', 0)):
        k = p.get('k%d' % i)
        if k in (1, 2):
            return False
        if k == 3:
            s = _nd(ctx, 'l%d' % i)
            for j in range(s.cap):
                conds.append(b_or(i_cmp('<=', s.ln, j, W, True), i_cmp('==', s.b[j], 32, 8, False), i_cmp('==', s.b[j], 13, 8, False)))
    return b_and(*conds)


def exclude(ctx, ob):
    if ob.kind == 'assert' and 'lines' in ctx.hooks['params']:
        return {'C09-blank-file-not-canonical': sig_blank_file(ctx)}
    return {}


def main(tier):
    ck = propcheck.Check('C09', tier)
    N = 16 if tier == 'quick' else 22
    K = 2 if tier == 'quick' else 3
    ck.assumptions += ['whole-file jobs run the parser with map iteration order fixed to insertion order (order independence is C03)',
                       'per-line step: line bytes printable ASCII (tabs behave like blanks for TrimLeft and \\s and are not in the alphabet), one job per length and indentation depth 0..2',
                       'file level: file structure (number of lines, which lines are header/empty/short) is enumerated per job, the free bytes of short lines (alphabet blank, a, #, !, CR), and the final-newline flag are symbolic',
                       'idempotence is decomposed: per-line fixed point (solver, all lines) + one application on whole files yields the canonical frame; a second whole-file application is not encoded',
                       'the upper-case character-class lint of --check is part of the encoded code but files here set no i flag']
    jobs = [('cmd.VerifC09LineIdempotent', dict(fixlen={'line': L}, params={'indent': d}, unwind=N + 12, timeout_ms=120000, terminal_obligations=()))
            for L in range(0, N + 1) for d in (0, 1, 2)]
    rs, viol = ck.run('line-step', jobs, bounds={'line_len': '0..%d' % N, 'indent': [0, 1, 2]})
    ck.triage(viol)
    jobs = []
    for k in range(0, K + 1):
        for kinds in itertools.product((0, 1, 2, 3), repeat=k):
            if tier == 'quick' and kinds in ((3, 1), (3, 2)):
                continue    # a symbolic line followed by a header line: does not finish within the quick job limit (thorough only)
            params = {'lines': k, 'hdr': 0}
            fl = {}
            for i, kd in enumerate(kinds):
                params['k%d' % i] = kd
                fl['l%d' % i] = 2
            jobs.append(('cmd.VerifC09FileOnce', dict(fixlen=fl, params=params, unwind=40, exclude=exclude, timeout_ms=120000, terminal_obligations=(), hooks={'fixed_map_order': True})))
    base_jobs = jobs
    jobs = []
    # files that already carry the header (with or without the blank line after it) followed by 0..K short lines
    for k in range(0, (1 if tier == 'quick' else 2) + 1):
        for H, kinds in itertools.product((1, 2), itertools.product((0, 3), repeat=k)):
            params = {'lines': k, 'hdr': H}
            fl = {}
            for i, kd in enumerate(kinds):
                params['k%d' % i] = kd
                fl['l%d' % i] = 2
            jobs.append(('cmd.VerifC09FileOnce', dict(fixlen=fl, params=params, unwind=40, exclude=exclude, timeout_ms=120000, terminal_obligations=(), hooks={'fixed_map_order': True})))
    jobs = jobs + base_jobs
    rs, viol = ck.run('file-once', jobs, job_timeout=400 if tier == 'quick' else 1500, bounds={'lines': '0..%d' % K, 'with_header': 'header (without / with the blank line after it) + 0..%d lines (empty | 2 symbolic bytes)' % (1 if tier == 'quick' else 2), 'line_kinds': 'empty | header line 1 | header line 2 | 2 symbolic bytes', 'final_newline': 'symbolic'})
    ck.triage(viol)
    return ck.finish()
