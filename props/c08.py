"""C08 - processing with --all equals processing each file on its own, in any order."""
import propcheck


def main(tier):
    ck = propcheck.Check('C08', tier)
    ck.died_confirms = False
    K = 3 if tier == 'quick' else 4
    ck.assumptions += ['(A) havoc / inductive invariant on the package-level assembler state: pre-state = empty stack and an arbitrary leftover processor; the sequence of K line kinds (7 kinds) is enumerated per job; rassemble.Join stubbed to a fixed result',
                       '(B) --all isolation on a tree of two files that share a stored-expression name (one only uses it); (C) --all completeness on a tree with non-rule .ra files, backups and an include directory; directory walk = lexical order of the modelled tree',
                       'OS directory enumeration order and concurrent invocations are outside']
    import itertools
    jobs = []
    for k in range(0, K + 1):
        for kinds in itertools.product(range(7), repeat=k):
            params = {'lines': k}
            params.update({'k%d' % i: kd for i, kd in enumerate(kinds)})
            jobs.append(('regex/operators.VerifC08Havoc', dict(params=params, unwind=40, timeout_ms=60000, terminal_obligations=(), hooks={'fixed_map_order': True})))
    for uf in (0, 1):
        for cmp_ in (0, 1):
            jobs.append(('cmd.VerifC08AllIsolated', dict(params={'user_first': uf, 'compare': cmp_}, unwind=40, timeout_ms=120000, terminal_obligations=(), hooks={'fixed_map_order': True})))
    jobs.append(('cmd.VerifC08AllComplete', dict(unwind=40, timeout_ms=120000, hooks={'fixed_map_order': True})))
    rs, viol = ck.run('all-vs-single', jobs, bounds={'lines': '0..%d' % K})
    ck.triage(viol)
    return ck.finish()
