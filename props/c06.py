"""C06 - include-except removes exactly the excluded entries and rewrites only suffixes."""
import itertools
import propcheck
import tv
import c01
from c05 import INC, EXC, CFG_YAML, CFG


def family(tier):
    progs = []
    words = {
        'plain': 'alpha\nbravo\ncharlie\ndelta\n',
        'dups': 'alpha\nbravo\nalpha\ncharlie\nbravo\ndelta\n',
        'dups3': 'alpha\nalpha\nbravo\nbravo\ncharlie\ncharlie\ndelta\nfoxtrot\n',
        'comments': '##! c\nalpha\n\nbravo\n  charlie\n',
        'defs': '##!> define w [0-9]\nalpha{{w}}\nbravo\n',
        'markers': 'ls@\ncat~\nid\n',
    }
    excl = {
        'none-hit': 'zulu\n', 'one': 'bravo\n', 'two': 'alpha\ncharlie\n', 'all': 'alpha\nbravo\ncharlie\ndelta\nfoxtrot\n', 'empty': '',
        'superset': 'alpha\nbravo\ncharlie\ndelta\necho\nfoxtrot\ngolf\n', 'with-defs': 'alpha[0-9]\n', 'markers': 'cat~\n',
    }
    for (wn, w), (en, e) in itertools.product(words.items(), excl.items()):
        files = {INC + 'w.ra': w, EXC + 'x.ra': e, 'regex-assembly/toolchain.yaml': CFG_YAML}
        progs.append({'src': 'first\n##!> include-except w x\nlast\n', 'files': files, 'cfg': CFG, 'tags': ['except', wn, en]})
    # two exclude files
    files = {INC + 'w.ra': words['plain'], EXC + 'x.ra': 'alpha\n', EXC + 'y.ra': 'delta\nalpha\n', 'regex-assembly/toolchain.yaml': CFG_YAML}
    progs.append({'src': '##!> include-except w x y\n', 'files': files, 'cfg': CFG, 'tags': ['except', 'two-files']})
    # suffix replacement: single pairs (multi-pair lists are order dependent: known finding of C03/C06)
    for pair in ('@ X', '~ ""', 'a b', '@ [\\s<>]', 'o 0'):
        for src in ('##!> include w -- %s\n', 'zz\n##!> include-except w x -- %s\n'):
            for wn in ('markers', 'plain', 'comments'):
                files = {INC + 'w.ra': words[wn], EXC + 'x.ra': 'id\nbravo\n', 'regex-assembly/toolchain.yaml': CFG_YAML}
                progs.append({'src': src % pair, 'files': files, 'cfg': CFG, 'tags': ['pairs', wn, pair]})
    # a suffix key that also ends a directive line of an include with prefix/suffix (must not be rewritten)
    files = {INC + 'w.ra': '##!^ p\nfoo>\nbar\n', 'regex-assembly/toolchain.yaml': CFG_YAML}
    progs.append({'src': '##!> include w -- > Q\n', 'files': files, 'cfg': CFG, 'tags': ['pairs', 'directive-lines']})
    files = {INC + 'w.ra': '##!$ s\nfoo<\nbar\n', 'regex-assembly/toolchain.yaml': CFG_YAML}
    progs.append({'src': '##!> include w -- < Q\n', 'files': files, 'cfg': CFG, 'tags': ['pairs', 'directive-lines']})
    for p in progs:
        p['runs'] = 12      # map iteration order inside include-except: several fresh runs, all outputs are compared
    return progs


PAIR_BOUNDS = {'quick': {'entry_len': [1, 4], 'key_len': [1, 2], 'replacement_len': [1, 2], 'alphabet': 'ab@~', 'pairs': 2},
               'thorough': {'entry_len': [1, 5], 'key_len': [1, 2], 'replacement_len': [1, 2], 'alphabet': 'ab@~', 'pairs': 2}}


def pair_jobs(tier):
    """two `-- old new` pairs, every byte symbolic over a 4-letter alphabet, two independent symbolic map orders"""
    E = range(1, 5) if tier == 'quick' else range(1, 6)
    return [('regex/parser.VerifC06SuffixPairs', dict(fixlen={'entry': e, 'old1': a, 'old2': b, 'new1': c, 'new2': d}, unwind=40, timeout_ms=120000, terminal_obligations=()))
            for e in E for a in (1, 2) for b in (1, 2) for c in (1, 2) for d in (1, 2) if (c, d) != (2, 2) or tier != 'quick']


def main(tier):
    ck = propcheck.Check('C06', tier, level='translation_validation')
    ck.assumptions += ['word lists x exclude files x suffix pairs ENUMERATED; the real output is compared with the hand-computed set difference / suffix rewrite by one solver query over all subject strings per program',
                       'translation-validation family: single `-- old new` pairs; one-pair and two-pair rewriting are decided symbolically on replaceSuffixes (entry, keys, replacements symbolic; two independent symbolic map orders); include-except order under every iteration order of the line map (list shapes enumerated)',
                       'each program is run 12 times in fresh contexts; differing outputs between runs are a violation (map iteration order inside the include-except builder)']
    jobs = [('regex/parser.VerifC06ReplaceSuffixOne', dict(fixlen={'entry': e, 'old': o, 'new': n}, unwind=30, timeout_ms=120000, terminal_obligations=()))
            for e in range(0, 6 if tier == 'quick' else 8) for o in (1, 2) for n in (1, 2)]
    rs, viol = ck.run('replaceSuffixes-one-pair', jobs, bounds={'entry_len': '0..%d' % (5 if tier == 'quick' else 7), 'old_len': [1, 2], 'new_len': [1, 2]})
    ck.triage(viol)
    rs, viol = ck.run('replaceSuffixes-two-pairs', pair_jobs(tier), bounds=PAIR_BOUNDS[tier])
    ck.replay_repeat = 400
    ck.triage(viol)
    jobs = [('regex/parser.VerifC06ExceptOrder', dict(params={'shape': sh}, unwind=40, timeout_ms=120000, terminal_obligations=())) for sh in range(5)]
    rs, viol = ck.run('include-except-all-orders', jobs, bounds={'list_shapes': 5})
    ck.triage(viol)
    ck.replay_repeat = None
    progs = family(tier)
    rows = c01.run_tv(ck, progs, 'include-except')
    for p, r in zip(progs, rows):
        if r.get('outs') and len(r['outs']) > 1 and r['status'] == 'equal':
            r['status'] = 'differ-empty'
            r['detail'] = 'output differs between runs: %r' % r['outs'][:3]
    c01.triage_tv(ck, progs, rows, [], 'C06')
    stats = {}
    for r in rows:
        stats[r['status']] = stats.get(r['status'], 0) + 1
    samples = [{'program': p['src'], 'files': {k: v for k, v in p['files'].items() if not k.endswith('.yaml')}, 'printed': r.get('out'), 'reference': r.get('ref'), 'verdict': r['status']}
               for p, r in list(zip(progs, rows))[::max(1, len(progs) // 6)][:6]]
    ck.samples = samples
    return ck.finish(coverage_extra={'programs': len(progs), 'disagreements_checked': sum(v for k, v in stats.items() if k not in ('equal',)), 'samples': samples, 'status_counts': stats},
                     rule='one evaluation = one include-except / suffix-pair program compiled by the real pipeline (12 fresh runs) and compared by one solver query over all subject strings with the hand-computed reference; plus the symbolic one-pair lemma on replaceSuffixes')
