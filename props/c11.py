"""C11 - update rewrites only the addressed rule's @rx operand."""
import propcheck
from sym import *
import zz as z3

MARKERS = (b'"@rx ', b'"!@rx ')


def _nd(ctx, tag):
    for t, kind, v in ctx.nondets:
        if t == tag:
            return v
    return None


def sig_marker_term(ctx):
    alts = []
    for tag in ('old', 'new', 'other'):
        s = _nd(ctx, tag)
        if s is not None:
            for m in MARKERS:
                alts.append(s_contains(s, m))
    return b_or(*alts)


def sig_tail_term(ctx):
    t = _nd(ctx, 'tail')
    return i_cmp('>', t.ln, 0, W, True) if t is not None else False


def exclude(ctx, ob):
    """known-finding signatures applicable to obligation ob (id -> condition)"""
    out = {}
    if ob.name.startswith('C11 update changes exactly'):
        out['C11-trailing-bytes-dropped'] = sig_tail_term(ctx)
    out['C11-operand-contains-rx-marker'] = sig_marker_term(ctx)
    return out


def only(ob):
    return ob.name.startswith('C11') or (ob.pos or '').startswith('cmd.updateRegex') or 'zz_verif_c11' in (ob.pos or '')


def jobs_update(tier, harness, excl, with_old=True, tails=(0,)):
    if tier == 'quick':
        olds, news = (0, 1, 6, 7), range(0, 10)
    else:
        olds, news = range(0, 9), range(0, 13)
    if not with_old:
        olds = (0,)
    jobs = []
    for o in olds:
        for n in news:
            for t in tails:
                for neg in (0, 1):
                    fl = {'new': n}
                    if with_old:
                        fl.update({'old': o, 'tail': t, 'other': o})
                    jobs.append(('cmd.' + harness, dict(fixlen=fl, params={'neg': neg}, unwind=14, exclude=excl, timeout_ms=60000)))
    b = {'new_len': list(news), 'negated_operator': [0, 1]}
    if with_old:
        b.update({'old_len': list(olds), 'tail_len': list(tails)})
    return jobs, b


def main(tier):
    ck = propcheck.Check('C11', tier)
    ck.assumptions += ['operands are printable ASCII satisfying the C02 output invariants (quotes escaped by one backslash, no "\\\\" pair, no trailing backslash)',
                       'rules file in CRS layout: SecRule line, id action on the following line; one other rule and a comment before it',
                       'bytes after the closing `" \\` on the rule line drawn from {space, tab, CR}',
                       'file system modelled as an in-memory map path -> bytes; paths concrete']
    jobs, bounds = jobs_update(tier, 'VerifC11Update', exclude, tails=(0, 1) if tier == 'quick' else (0, 1, 2))
    rs, viol = ck.run('update-operand', jobs, bounds=bounds)
    ck.triage(viol)
    return ck.finish()
