"""C18 - rule arguments, file names, chain offsets and the CRS root resolve consistently."""
import propcheck


def main(tier):
    ck = propcheck.Check('C18', tier)
    N = 26 if tier == 'quick' else 30
    ck.assumptions += ['argument bytes are ASCII (< 0x80); argument length <= %d, decided separately for every length' % N,
                       'regexp semantics: exact leftmost-first oracle built from the compiled syntax.Prog of the pattern text found in the current source (differentially tested against Go regexp)']
    jobs = [('cmd.VerifC18ParseRuleId', dict(fixlen={'arg': L}, unwind=N + 4)) for L in range(0, N + 1)]
    rs, viol = ck.run('parseRuleId', jobs, bounds={'arg_len': '0..%d (one job per length)' % N, 'unwind': N + 4})
    ck.triage(viol)
    return ck.finish()
