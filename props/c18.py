"""C18 - rule arguments, file names, chain offsets and the CRS root resolve consistently."""
import propcheck


def main(tier):
    ck = propcheck.Check('C18', tier)
    N = 26 if tier == 'quick' else 30
    ck.assumptions += ['findRootDirectory: os.Stat answers for the four candidate directories are symbolic; directories above the temporary directory are not modelled (the filesystem root itself is outside)', 'stdin vs file: Operator.Run is summarised as an uninterpreted function of its input string (equal inputs give equal outputs, nothing else assumed), so the query is about the bytes that reach the assembler; os.Stdin and os.Stdout modelled as byte streams',
                       'argument bytes are ASCII (< 0x80); argument length <= %d, decided separately for every length' % N,
                       'regexp semantics: exact leftmost-first oracle built from the compiled syntax.Prog of the pattern text found in the current source (differentially tested against Go regexp)']
    jobs = [('cmd.VerifC18ParseRuleId', dict(fixlen={'arg': L}, unwind=N + 4)) for L in range(0, N + 1)]
    rs, viol = ck.run('parseRuleId', jobs, bounds={'arg_len': '0..%d (one job per length)' % N, 'unwind': N + 4})
    ck.triage(viol)
    jobs = [('cmd.VerifC18Root', dict(params={'depth': d}, unwind=20, hooks={'choice_strings': True}, timeout_ms=60000)) for d in range(4)]
    rs, viol = ck.run('findRootDirectory', jobs, bounds={'start_depth': '0..3 below the temporary directory', 'nested_roots': 'all 16 combinations symbolic'})
    ck.triage(viol)
    jobs = [('cmd.VerifC18StdinVsFile', dict(fixlen={'l1': a, 'l2': b}, unwind=40, hooks={'fixed_map_order': True, 'summarise': {'(*github.com/coreruleset/crs-toolchain/v2/regex/operators.Operator).Run': 6}}, timeout_ms=60000, terminal_obligations=(), max_models=8)) for a in range(0, 3) for b in range(0, 3)]
    ck.max_replays_per_obligation = 24
    rs, viol = ck.run('stdin-vs-file', jobs, bounds={'content': 'two lines of 0..2 bytes each over {a, b, blank, tab}'})
    ck.triage(viol)
    return ck.finish()
