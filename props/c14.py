"""C14 - update-copyright sets version and year everywhere, whatever was there before."""
import propcheck
import pike
from sym import *
import c09

READ_SIDE = r'^\d+\.\d+\.\d+(-[a-z0-9-]+)?$'


def exclude(ctx, ob):
    kind = ctx.hooks['params'].get('kind')
    if ob.kind != 'assert' or kind not in (1, 2):
        return {}
    v1 = c09._nd(ctx, 'v1')
    if v1 is None:
        return {}
    m, _, _ = pike.match(pike.prog_of(READ_SIDE), v1)
    # known: an accepted version outside \d+.\d+.\d+(-[a-z0-9-]+)? (v prefix, upper-case pre-release, build metadata,
    # two components) is written but never matched again by the ver:/SecComponentSignature patterns
    return {'C14-written-version-not-readable': b_not(m)}


def main(tier):
    ck = propcheck.Check('C14', tier)
    N = 6 if tier == 'quick' else 10
    ck.assumptions += ['version alphabet: digits . - + v and the letters R C r c a b (covers v prefix, pre-release in either case, build metadata, 2- and 3-component versions); years are the constants 2025/2026',
                       'accepted versions = language of the validation regex constant of Masterminds/semver/v3 read from the dependency (over-approximation of NewVersion; models are confirmed natively with the real NewVersion)',
                       'history independence proved as a one-step lemma from an arbitrary accepted previous version (induction over runs)',
                       'final-newline addition and CR stripping by the line scanner are outside this check']
    jobs = []
    lens = [(a, b) for a in range(1, N + 1) for b in (1, 3, 5)] if tier == 'quick' else [(a, b) for a in range(1, N + 1) for b in range(1, N + 1)]
    for kind in range(5):
        for a, b in (lens if kind != 3 else [(x, y) for x in (1, 2, 3) for y in (1, 2, 3)]):
            jobs.append(('chore.VerifC14History', dict(fixlen={'v1': a, 'v2': b}, params={'kind': kind}, unwind=60, exclude=exclude, timeout_ms=120000, terminal_obligations=(), hooks={'compact': True})))
    rs, viol = ck.run('one-step-history', jobs, job_timeout=120 if tier == 'quick' else 900, bounds={'version_len': '1..%d (digits-only setup version marker: 1..3)' % N, 'marker_kinds': 5})
    ck.triage(viol)
    jobs = [('chore.VerifC14TwoMarkers', dict(fixlen={'v2': b}, params={'shape': sh, 'prev': pv}, unwind=60, timeout_ms=120000, terminal_obligations=(), hooks={'compact': True}))
            for sh in ((0,) if tier == 'quick' else (0, 1)) for pv in range(4) for b in ((3, 5) if tier == 'quick' else (1, 3, 5, 6, 7))]
    rs, viol = ck.run('two-markers-on-one-line', jobs, job_timeout=300 if tier == 'quick' else 900, bounds={'previous_version': ['4.0.0', '4.1.0-rc1', 'v4.2.0', '4.3.0+b5'], 'new_version_len': [3, 5], 'line_shapes': 1 if tier == 'quick' else 2})
    ck.triage(viol)
    jobs = [('chore.VerifC14Untouched', dict(fixlen={'line': L, 'v1': 5}, unwind=60, timeout_ms=120000, terminal_obligations=(), hooks={'compact': True})) for L in range(0, 15)]
    rs, viol = ck.run('non-marker-lines', jobs, bounds={'line_len': '0..14'})
    ck.triage(viol)
    return ck.finish()
