"""C13 - renumber-tests numbers tests 1..n, touches nothing else, and is idempotent."""
import itertools
import propcheck
from sym import *

KID, KTITLE = 0, 1


def exclude(ctx, ob):
    p = ctx.hooks['params']
    kinds = [p.get('k%d' % i) for i in range(p.get('lines', 0))]
    # known: id numbers and legacy title numbers share one counter, so a file mixing both kinds is misnumbered
    mixed = KID in kinds and KTITLE in kinds
    return {'C13-mixed-id-and-title-share-counter': True} if (mixed and ob.kind == 'assert') else {}


def main(tier):
    ck = propcheck.Check('C13', tier)
    K = 2 if tier == 'quick' else 3
    N = 10 if tier == 'quick' else 14
    ck.assumptions += ['file structure (number of lines and the kind of each: id, title, other, empty, blank) enumerated per job; spacing after the key, old value, trailing blank and the final-newline flag symbolic',
                       'a test id line is `test_id:` followed by white space and a value (YAML mapping syntax)',
                       'single-line lemma: printable ASCII line of each length, file = that line + newline']
    jobs = []
    for k in range(0, K + 1):
        for kinds in itertools.product(range(5), repeat=k):
            params = {'lines': k}
            fl = {}
            for i, kd in enumerate(kinds):
                params['k%d' % i] = kd
                fl.update({'sp%d' % i: 1 + (i % 2), 'val%d' % i: 2 if kd != 4 else 1 + (i % 2), 'tr%d' % i: i % 2})
            jobs.append(('util.VerifC13File', dict(fixlen=fl, params=params, unwind=60, exclude=exclude, timeout_ms=120000, terminal_obligations=())))
    # the mixed legacy/new shapes of the known finding and a few three-line files
    for kinds in ((1, 1, 0), (0, 1, 0), (1, 0, 1), (0, 0, 0), (2, 0, 3), (0, 3, 4)):
        params = {'lines': 3}
        fl = {}
        for i, kd in enumerate(kinds):
            params['k%d' % i] = kd
            fl.update({'sp%d' % i: 1, 'val%d' % i: 2 if kd != 4 else 1, 'tr%d' % i: 0})
        jobs.append(('util.VerifC13File', dict(fixlen=fl, params=params, unwind=60, exclude=exclude, timeout_ms=120000, terminal_obligations=())))
    rs, viol = ck.run('files', jobs, bounds={'lines': '0..%d' % K, 'kinds': 'id|title|other|empty|blank per line'})
    ck.triage(viol)
    jobs = []
    for k in (0, 1, 2):
        for kinds in itertools.product((0, 2, 3, 4), repeat=k):
            params = {'lines': k}
            fl = {}
            for i, kd in enumerate(kinds):
                params['k%d' % i] = kd
                fl.update({'sp%d' % i: 1, 'val%d' % i: 1, 'tr%d' % i: i % 2})
            jobs.append(('util.VerifC13CheckMode', dict(fixlen=fl, params=params, unwind=60, timeout_ms=120000, terminal_obligations=())))
    rs, viol = ck.run('check-mode', jobs, bounds={'lines': '0..2', 'kinds': 'id|other|empty|blank', 'final_newline': 'symbolic', 'github_output': 'symbolic'})
    ck.triage(viol)
    jobs = [('util.VerifC13OldValue', dict(fixlen={'a': a, 'b': b}, unwind=60, timeout_ms=120000, terminal_obligations=())) for a in (1, 2, 3) for b in (1, 2)]
    rs, viol = ck.run('old-values', jobs, bounds={'old_value_len': '1..3 digits (first test), 1..2 digits (second test)'})
    ck.triage(viol)
    jobs = [('util.VerifC13Line', dict(fixlen={'line': L}, unwind=N + 12, timeout_ms=120000, terminal_obligations=())) for L in range(0, N + 1)]
    rs, viol = ck.run('single-line', jobs, bounds={'line_len': '0..%d' % N})
    ck.triage(viol)
    return ck.finish()
