"""C02 - generated regex can be pasted between the quotes of a SecRule line."""
import propcheck
from sym import *

# stated (and solver-checked) bounds on the length of each pass's result in terms of its input's bound
LEN_BOUNDS = {
    'useHexEscapes': lambda u: 6 * u[0],
    'escapeDoublequotes': lambda u: 2 * u[0],
    'useHexBackslashes': lambda u: 2 * u[0],
    'includeVerticalTabInSpaceClass': lambda u: u[0],
    'dontUseFlagsForMetaCharacters': lambda u: u[0],
    'removeGroup': lambda u: u[0],
    'removeOutermostNonCapturingGroup': lambda u: u[0],
}

HOOKS = {'len_bounds': 'c02.LEN_BOUNDS', 'split': {'findGroupBodyEnd': [2], 'IsEscaped': [1]}, 'pure': {'IsEscaped'}}


def _nd(ctx, tag):
    for t, kind, v in ctx.nondets:
        if t == tag:
            return v
    return None


def parity(t):
    """par[i]: the run of backslashes ending just before position i has odd length"""
    par = [False]
    for i in range(t.cap):
        isb = i_cmp('==', t.b[i], 92, 8, False)
        par.append(b_and(isb, b_not(par[i])))
    return par


def sig_even_backslashes_before_quote(ctx):
    """known finding C02-quote: a double quote preceded by an even, non-zero number of backslashes"""
    t = _nd(ctx, 't')
    if t is None:
        return False
    par = parity(t)
    alts = []
    for i in range(1, t.cap):
        alts.append(b_and(i_cmp('<', i, t.ln, W, True), i_cmp('==', t.b[i], 34, 8, False), i_cmp('==', t.b[i - 1], 92, 8, False), b_not(par[i])))
    return b_or(*alts)


def sig_escaped_paren_flag(ctx):
    """known finding C19/C02: an ESCAPED '(' followed by '?' and a flag letter (text that only looks like a flag group)"""
    t = _nd(ctx, 't')
    if t is None:
        return False
    par = parity(t)
    alts = []
    for i in range(0, t.cap - 2):
        fl = b_or(*[i_cmp('==', t.b[i + 2], c, 8, False) for c in b'-misU'])
        alts.append(b_and(i_cmp('<', i + 2, t.ln, W, True), i_cmp('==', t.b[i], 40, 8, False), par[i], i_cmp('==', t.b[i + 1], 63, 8, False), fl))
    return b_or(*alts)


def exclude(ctx, ob):
    out = {}
    if ob.kind == 'assert':
        out['C02-quote-after-escaped-backslash'] = sig_even_backslashes_before_quote(ctx)
        out['C02-escaped-paren-looks-like-flag-group'] = sig_escaped_paren_flag(ctx)
    return out


def only(ob):
    return ob.kind == 'assert'


LEMMAS = [('VerifC02HexEscapes', 'useHexEscapes'), ('VerifC02Quotes', 'escapeDoublequotes'), ('VerifC02Backslashes', 'useHexBackslashes'),
          ('VerifC02VerticalTab', 'includeVerticalTabInSpaceClass'), ('VerifC02FlagGroups', 'dontUseFlagsForMetaCharacters'),
          ('VerifC02Outermost', 'removeOutermostNonCapturingGroup')]


def lemma_jobs(N, excl, onl, names=None, heavyN=None, deep=0, hexN=6):
    jobs = []
    for h, grp in LEMMAS:
        if names and h not in names:
            continue
        n = N if h != 'VerifC02FlagGroups' or heavyN is None else heavyN
        if h == 'VerifC02HexEscapes':
            n = min(n, hexN)      # fmt.Sprintf per rune: the most expensive lemma per byte
        # all printable bytes up to n; beyond that (deep) the representative alphabet (see c02Alphabet in the harness)
        extra = deep if (h not in ('VerifC02FlagGroups', 'VerifC02HexEscapes')) else 0
        for L in range(0, n + extra + 1):
            hooks = dict(HOOKS)
            if onl:
                hooks['only_obligations'] = onl
            hooks['max_findall'] = L // 4 + 1
            if L > n:
                hooks['compact'] = True    # the deep jobs were measured with constant-tree compaction on (L = 11: 30-70 s)
            jobs.append(('regex/operators.' + h, dict(fixlen={'t': L}, params={'alpha': 1 if L > n else 0}, unwind=6 * (N + extra) + 8, unwind_by_func={'dontUseFlagsForMetaCharacters': L // 4 + 1},
                                                       hooks=hooks, exclude=excl, timeout_ms=90000)))
    return jobs


def shaped_jobs(tier, excl, onl, term=False):
    """flag-group lemma on text with a skeleton: free text + opener + free text [+ ")"] + free text (representative alphabet)"""
    if tier == 'quick':
        openers, lens = (0, 2, 3, 4, 5), ((1, 1, 1),)
    else:
        openers, lens = (0, 1, 2, 3, 4, 5), ((1, 1, 1), (2, 1, 1), (1, 2, 1), (1, 1, 2))
    jobs = []
    for opn in openers:
        for cl in (0, 1):
            for a, b, c in lens:
                hooks = dict(HOOKS, max_findall=2)
                if onl:
                    hooks['only_obligations'] = onl
                jobs.append(('regex/operators.VerifC02FlagGroupsShaped', dict(fixlen={'p': a, 'b': b, 'q': c}, params={'opener': opn, 'opener2': -1, 'close': cl}, unwind=60,
                                                                             unwind_by_func={'dontUseFlagsForMetaCharacters': 3}, hooks=hooks, exclude=excl, timeout_ms=90000, unwind_is_violation=term)))
    # (texts with TWO openers - e.g. two escaped look-alikes, 11+ bytes - were tried with 1 free byte between the parts:
    #  the jobs neither finish in 500 s nor stay below the memory limit; they are outside the bound, see DESIGN section 8)
    return jobs, {'openers': ['(?i:', '(?-s:', '(?i)', '\\(?i:', '\\(?i)', '(?:'], 'openers_run': list(openers), 'free_text_lens(p,b,q)': [list(x) for x in lens], 'closing_paren': [0, 1]}


def main(tier):
    ck = propcheck.Check('C02', tier)
    N, heavy = (7, 6) if tier == 'quick' else (12, 8)
    ck.assumptions += ['assume-guarantee decomposition of Operator.complete: one lemma per clean-up pass on text of the shape the previous passes guarantee (PG+: ASCII, every backslash starts an escape, unescaped parentheses balance, "(?" opens a well-formed group, a flags-only group is not quantified, no group body or alternative starts with a quantifier, the body of a flag group is not empty)',
                       'text length fixed per job (every length 0..N decided separately); text after useHexEscapes is printable ASCII (lemma 1), which licenses byte = rune in the regexp oracle',
                       'rassemble.Join / regexp/syntax are not encoded; "parses as RE2" is decided on the translation-validation family of C01, not here',
                       'non-ASCII (2..4 byte UTF-8) input to useHexEscapes is outside this bound']
    deep = 3 if tier == 'quick' else 7
    jobs = lemma_jobs(N, exclude, only, heavyN=heavy, deep=deep, hexN=6 if tier == 'quick' else 9)
    jobs.append(('regex/operators.VerifC02FlagsPrefix', dict(unwind=12, hooks=dict(HOOKS), timeout_ms=60000)))
    rs, viol = ck.run('pass-lemmas', jobs, bounds={'text_len': '0..%d over all printable ASCII (flag-group lemma 0..%d, useHexEscapes 0..%d over all ASCII), %d..%d over the representative alphabet' % (N, heavy, 6 if tier == 'quick' else 9, N + 1, N + deep), 'flag_sets': 'all subsets of {i,s}, all map iteration orders'})
    ck.triage(viol)
    sj, sb = shaped_jobs(tier, exclude, only)
    ck.assumptions.append('flag-group lemma, deeper jobs: text with a skeleton (free text, opener, free text, optional ")", free text) over a representative alphabet: every byte comparison in the passes and predicates is against a constant of that alphabet, other printable bytes are interchangeable')
    rs, viol = ck.run('flag-groups-shaped', sj, bounds=sb, job_timeout=420 if tier == 'quick' else 1500)
    ck.triage(viol)
    return ck.finish()
