"""C03 - same files and configuration always give byte-identical output (map iteration order as a symbolic schedule)."""
import propcheck
import pike
from sym import *
import c09
import c06


def _rx(ctx, frag):
    for p in ctx.hooks.get('patterns', {}):
        if frag in p:
            return pike.prog_of(p)
    return None


def exclude(ctx, ob):
    """known: IncludeRegex is unanchored, so a line that is a comment or an include-except directive and also
    contains `##!> include X` is claimed by two patterns and the winner depends on map iteration order"""
    if ob.kind != 'assert':
        return {}
    l = c09._nd(ctx, 'line')
    inc = _rx(ctx, 'include\\s+(\\S+)(?:')
    if l is None or inc is None:
        return {}
    m, caps, _ = pike.match(inc, l)
    return {'C03-unanchored-include-overlaps-other-directives': b_and(m, i_cmp('>', caps[0], 0, W, True))}


def main(tier):
    ck = propcheck.Check('C03', tier)
    ck.replay_repeat = 400
    N = 16 if tier == 'quick' else 18
    ck.assumptions += ['the Go runtime randomises every `range` over a map: each range statement gets its own symbolic permutation of the entries (all orders decided at once)',
                       'parseLine: printable ASCII line, one job per length; expandDefinitions: definition shapes enumerated (chains of depth 3 under several namings, diamond, independent + undefined, braces), all iteration orders of its three loops symbolic',
                       'OS-level nondeterminism (directory order) is C08; time/pid/random are not called on these paths (no such call appears in the encoded call trees)']
    jobs = [('regex/parser.VerifC03ParseLine', dict(fixlen={'line': L}, unwind=N + 12, exclude=exclude, timeout_ms=120000, terminal_obligations=())) for L in range(0, N + 1)]
    rs, viol = ck.run('parseLine-two-orders', jobs, job_timeout=420 if tier == 'quick' else 3000, bounds={'line_len': '0..%d' % N, 'patterns': 7})
    ck.triage(viol)
    # include-except under every iteration order of the line map; suffix-replacement pair lists under two independent orders
    jobs = [('regex/parser.VerifC06ExceptOrder', dict(params={'shape': sh}, unwind=40, timeout_ms=120000, terminal_obligations=())) for sh in range(5)]
    rs, viol = ck.run('include-except-all-orders', jobs, bounds={'list_shapes': 5})
    ck.triage(viol)
    jobs = c06.pair_jobs(tier)
    rs, viol = ck.run('suffix-pairs-two-orders', jobs, bounds=c06.PAIR_BOUNDS[tier])
    ck.triage(viol)
    shapes = (2, 4, 5, 6, 7) if tier == 'quick' else (0, 1, 2, 3, 4, 5, 6, 7)
    jobs = [('regex/parser.VerifC07Expand', dict(params={'shape': sh}, unwind=30, hooks={'choice_strings': True, 'max_replace': 6}, timeout_ms=240000, terminal_obligations=())) for sh in shapes]
    rs, viol = ck.run('expandDefinitions-all-orders', jobs, bounds={'shapes': list(shapes)})
    ck.triage(viol)
    return ck.finish()
