"""C04 - cmdline blocks match every listed command with anti-evasion tokens interleaved."""
import itertools
import propcheck
import tv
import c01
import rxlang
from sym import *

CRS_YAML = '''patterns:
  anti_evasion:
    unix: |
      [\\x5c'\\"\\[]*(?:\\$[a-z0-9_@?!#{*-]*)?(?:\\x5c)?
    windows: |
      [\\"\\^]*
  anti_evasion_suffix:
    unix: |
      (?:[\\s<>&|),]|$)
    windows: |
      [\\s,;./<>]
  anti_evasion_no_space_suffix:
    unix: |
      (?:[<>&|),]|$)
    windows: |
      [,;./<>]
'''
CRS = {'anti_evasion': {'unix': '[\\x5c\'\\"\\[]*(?:\\$[a-z0-9_@?!#{*-]*)?(?:\\x5c)?', 'windows': '[\\"\\^]*'},
       'anti_evasion_suffix': {'unix': '(?:[\\s<>&|),]|$)', 'windows': '[\\s,;./<>]'},
       'anti_evasion_no_space_suffix': {'unix': '(?:[<>&|),]|$)', 'windows': '[,;./<>]'}}
SIMPLE_YAML = 'patterns:\n  anti_evasion:\n    unix: "[x]*"\n    windows: "   [y]*  "\n  anti_evasion_suffix:\n    unix: "(?:\\\\s|$)"\n    windows: "[z]"\n  anti_evasion_no_space_suffix:\n    unix: "(?:[<>]|$)\\n"\n    windows: "[w]"\n'
SIMPLE = {'anti_evasion': {'unix': '[x]*', 'windows': '[y]*'}, 'anti_evasion_suffix': {'unix': '(?:\\s|$)', 'windows': '[z]'},
          'anti_evasion_no_space_suffix': {'unix': '(?:[<>]|$)', 'windows': '[w]'}}
PARTIAL_YAML = 'patterns:\n  anti_evasion_suffix:\n    unix: "[q]"\n'
PARTIAL = {'anti_evasion_suffix': {'unix': '[q]'}}
CONFIGS = {
    'crs-block-scalars': (CRS_YAML, CRS),
    'simple-padded': (SIMPLE_YAML, SIMPLE),
    'absent': (None, {}),
    'empty': ('', {}),
    'garbage': ('patterns: [unclosed\n  : :\n', {}),
    'partial': (PARTIAL_YAML, PARTIAL),
}

WORDS_SMALL = ['a', 'ab', 'a.b', 'a-b', 'a b', 'ab@', 'ab~', 'ab\\@', 'ab\\~', "'a.b+", 'a_b', 'x@', '@', 'a  b']
WORDS_CRS = ['busybox sh', 'python3~', 'curl@', 'ls', 'cat@', 'wget~', 'sh.distrib', 'apt-get@']


def family(tier):
    progs = []
    for cname, (yaml, cfg) in CONFIGS.items():
        files = {} if yaml is None else {'regex-assembly/toolchain.yaml': yaml}
        words = WORDS_SMALL if cname != 'crs-block-scalars' else WORDS_SMALL[:8] + WORDS_CRS
        for shell in ('unix', 'windows'):
            for w in words:
                progs.append({'src': '##!> cmdline %s\n%s\n##!<\n' % (shell, w), 'files': files, 'cfg': cfg, 'tags': [cname, shell, 'one-word']})
            pairs = list(itertools.combinations(words[:6] if tier == 'quick' else words[:10], 2))
            for a, b in pairs:
                if cname == 'crs-block-scalars' and tier == 'quick' and (len(a) + len(b)) > 5:
                    continue
                progs.append({'src': '##!> cmdline %s\n%s\n%s\n##!<\n' % (shell, a, b), 'files': files, 'cfg': cfg, 'tags': [cname, shell, 'two-words']})
            # mixed with plain entries and nested in an assemble block
            progs.append({'src': 'foo\n##!> cmdline %s\nab@\nc.d\n##!<\nbar\n' % shell, 'files': files, 'cfg': cfg, 'tags': [cname, shell, 'mixed']})
            progs.append({'src': '##!> assemble\nx\n##!=>\n##!> cmdline %s\nab~\na b\n##!<\n##!<\n' % shell, 'files': files, 'cfg': cfg, 'tags': [cname, shell, 'nested']})
    return progs


def main(tier):
    ck = propcheck.Check('C04', tier, level='translation_validation')
    ck.assumptions += ['configuration axis ENUMERATED: CRS-like toolchain.yaml (block scalars with trailing newline), padded quoted scalars, absent file, empty file, unparsable YAML, partial file; yaml.v3 itself is not encoded',
                       'word axis ENUMERATED for the whole-pipeline comparison (1- and 2-word blocks over . - _ space and the @ ~ \\@ \\~ \' markers, alone, mixed with entries, nested); the solver decides all evasion strings of every length for each block',
                       'word axis SYMBOLIC for the per-word expansion: regexpStr is executed symbolically for every word up to the stated length and compared with an independent character-by-character reference',
                       'reference expansion: c1 E c2 ... E cn [E S] with . -> \\., - -> \\-, space -> \\s+, trailing @ / ~ select the suffix patterns, \\@ / \\~ keep the character, leading quote passes the rest through']
    jobs = []
    N = 6 if tier == 'quick' else 9
    for L in range(0, N + 1):
        for shell in (1, 2):
            jobs.append(('regex/processors.VerifC04Word', dict(fixlen={'word': L}, params={'shell': shell}, unwind=N + 10, timeout_ms=120000, terminal_obligations=())))
    rs, viol = ck.run('regexpStr-symbolic-word', jobs, bounds={'word_len': '0..%d' % N, 'shell': ['unix', 'windows'], 'patterns': 'opaque symbolic strings of 2 bytes'})
    ck.triage(viol)
    progs = family(tier)
    rows = c01.run_tv(ck, progs, 'cmdline-blocks', timeout_s=40)
    c01.triage_tv(ck, progs, rows, [], 'C04')
    stats = {}
    for r in rows:
        stats[r['status']] = stats.get(r['status'], 0) + 1
    samples = [{'program': p['src'], 'config': p['tags'][0], 'printed': r.get('out'), 'reference': r.get('ref'), 'verdict': r['status'], 'solver_s': r.get('seconds')}
               for p, r in list(zip(progs, rows))[::max(1, len(progs) // 6)][:6]]
    ck.samples = samples
    return ck.finish(coverage_extra={'programs': len(progs), 'disagreements_checked': sum(v for k, v in stats.items() if k not in ('equal',)), 'samples': samples, 'status_counts': stats},
                     rule='one evaluation = one cmdline program under one configuration compiled by the real pipeline and compared by one solver query (all subject / evasion strings) with the documented expansion; plus symbolic per-word obligations on regexpStr')
