"""C07 - definitions are pure textual substitution, independent of their order."""
import propcheck


def main(tier):
    ck = propcheck.Check('C07', tier)
    ck.replay_repeat = 400
    ck.assumptions += ['definition shapes enumerated (chains of depth 3 under three namings, diamond, independent + undefined reference, quantifier braces around references); every iteration order of the three map loops of expandDefinitions is symbolic',
                       'definition lines reach expandDefinitions through a Go map, so the order in which they are written cannot matter once every map order is covered; the line-level part (a definition line contributes no entry) is decided for C03/C10 on parseLine']
    shapes = (2, 4, 5, 6, 7) if tier == 'quick' else (0, 1, 2, 3, 4, 5, 6, 7)
    jobs = [('regex/parser.VerifC07Expand', dict(params={'shape': sh}, unwind=30, hooks={'choice_strings': True, 'max_replace': 6}, timeout_ms=240000, terminal_obligations=())) for sh in shapes]
    rs, viol = ck.run('expandDefinitions-all-orders', jobs, bounds={'shapes': list(shapes)})
    ck.triage(viol)
    # the VALUE of a definition is symbolic text (metacharacters, `$`, backslashes, single braces), pasted directly (shape 0),
    # through a second definition (1) and next to quantifier braces (2); all map orders symbolic as above
    lens = {0: range(1, 6), 1: range(1, 3), 2: range(1, 5)} if tier == 'quick' else {0: range(1, 7), 1: range(1, 4), 2: range(1, 6)}
    ck.assumptions.append('definition value: printable ASCII without blank and without `{{` (the property excludes references that only come into existence through a substitution); length bound per shape in bounds')
    jobs = [('regex/parser.VerifC07ExpandValue', dict(params={'shape': sh}, fixlen={'val': L}, unwind=30, hooks={'choice_strings': True, 'max_replace': 6}, timeout_ms=240000, terminal_obligations=()))
            for sh in (0, 1, 2) for L in lens[sh]]
    rs, viol = ck.run('expandDefinitions-symbolic-value', jobs, bounds={'value_len_by_shape': {k: [min(v), max(v)] for k, v in lens.items()}})
    ck.triage(viol)
    return ck.finish()
