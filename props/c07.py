"""C07 - definitions are pure textual substitution, independent of their order."""
import propcheck


def main(tier):
    ck = propcheck.Check('C07', tier)
    ck.replay_repeat = 400
    ck.assumptions += ['definition shapes enumerated (chains of depth 3 under three namings, diamond, independent + undefined reference, quantifier braces around references); every iteration order of the three map loops of expandDefinitions is symbolic',
                       'definition lines reach expandDefinitions through a Go map, so the order in which they are written cannot matter once every map order is covered; the line-level part (a definition line contributes no entry) is decided for C03/C10 on parseLine']
    shapes = (2, 4, 5, 6, 7) if tier == 'quick' else (0, 1, 2, 3, 4, 5, 6, 7)
    jobs = [('regex/parser.VerifC07Expand', dict(params={'shape': sh}, unwind=30, hooks={'choice_strings': True}, timeout_ms=240000, terminal_obligations=())) for sh in shapes]
    rs, viol = ck.run('expandDefinitions-all-orders', jobs, bounds={'shapes': list(shapes)})
    ck.triage(viol)
    return ck.finish()
