"""C16 - failures are loud: non-zero exit, no regex printed, no target file modified."""
import json
import propcheck


def exclude(ctx, ob):
    p = ctx.hooks['params']
    if ob.kind != 'assert':
        return {}
    if p.get('cmd') == 1 and p.get('fault') in (12, 13):
        # known: processRegexForCompare returns the (nil) glob error when no or several rules files match
        return {'C16-compare-exits-0-without-rules-file': True}
    if 'regex format' in ob.name:
        return {'C16-format-succeeds-on-unbalanced-end-marker': True}
    return {}


def main(tier):
    ck = propcheck.Check('C16', tier)
    ck.died_confirms = False
    ck.assumptions += ['map iteration order fixed to insertion order in this check (order independence of the parser is decided by C03)',
                       'exit status is a function of how the command body ends: RunE returning non-nil -> Execute exits 1; logger.Fatal -> exit 1; logger.Panic / runtime panic -> exit 2; normal return -> 0 (contracts of cobra and zerolog)',
                       'fault classes ENUMERATED (missing include (top level, in a block, of include-except), missing exclude file, flags line in an include file, unknown stored name (top level, nested block), unknown stored name, too many / too few end markers, unknown processor, unknown cmdline type, unsupported flag, odd replacement list, malformed entry via a failing rassemble stub, missing identifier, rule id / chain offset / rules file not found or ambiguous, unbalanced marker for format); the position of the faulty file in an --all run and --all vs single mode are enumerated per job, the output format is symbolic',
                       'reading chosen for --all: the run must not exit 0; files that completed before the fault are not rolled back']
    jobs = []
    for cmd in (0, 1):
        for fault in range(0, 19):
            for allm, posn in ((0, 1), (1, 0), (1, 1), (1, 2)):
                if fault == 11 and allm:
                    continue
                jobs.append(('cmd.VerifC16Fault', dict(params={'fault': fault, 'cmd': cmd, 'all': allm, 'position': posn}, unwind=40, exclude=exclude, timeout_ms=120000, terminal_obligations=(), hooks={'fixed_map_order': True})))
    for cmd in (0, 1):
        for kind in (0, 1):
            for posn in (0, 1, 2):
                jobs.append(('cmd.VerifC16RulesFilePerRule', dict(params={'cmd': cmd, 'kind': kind, 'position': posn}, unwind=40, exclude=exclude, timeout_ms=120000, terminal_obligations=(), hooks={'fixed_map_order': True})))
    jobs.append(('cmd.VerifC16FormatFault', dict(unwind=40, exclude=exclude, timeout_ms=120000, terminal_obligations=(), hooks={'fixed_map_order': True})))
    rs, viol = ck.run('faults', jobs, bounds={'fault_classes': 19, 'commands': ['update', 'compare', 'format'], 'all_position': 'first/middle/last, enumerated'})
    ck.triage(viol)
    # Every scenario here has a concrete tree; the only symbolic input is the output format. How the command body ends
    # (Fatal / Panic / returned error / normal return) is computed by the symbolic executor and, when it does not depend on
    # the output format, folds to a constant before it reaches the solver. The evidence therefore counts scenarios, and
    # says how many of them needed a solver query.
    done = [r for r in rs if r['status'] == 'ok']
    scen = {(r['harness'], json.dumps(r.get('params'), sort_keys=True)) for r in done}
    ck.samples = [{'scenario': r.get('params'), 'harness': r['harness'].rsplit('.', 1)[-1], 'obligations_left_for_the_solver': len(r['obligations'])} for r in done[:: max(1, len(done) // 8)][:8]]
    return ck.finish(coverage_extra={'evaluations': len(rs), 'distinct_nontrivial': len(scen), 'scenarios_decided_by_constant_folding': sum(1 for r in done if not r['obligations']),
                                     'solver_queries': ck.queries, 'samples': ck.samples},
                     rule='one evaluation = one fault scenario (fault class x command x single/--all x position of the faulty file) executed symbolically through the real command body on a modelled tree; non-trivial = the execution completed and reached a terminal outcome of the command body (distinct by scenario parameters); the outcome is a constant for most scenarios (concrete tree), so few solver queries remain - see scenarios_decided_by_constant_folding')
