"""C16 - failures are loud: non-zero exit, no regex printed, no target file modified."""
import propcheck


def exclude(ctx, ob):
    p = ctx.hooks['params']
    if ob.kind != 'assert':
        return {}
    if p.get('cmd') == 1 and p.get('fault') in (12, 13):
        # known: processRegexForCompare returns the (nil) glob error when no or several rules files match
        return {'C16-compare-exits-0-without-rules-file': True}
    if 'regex format' in ob.name:
        return {'C16-format-succeeds-on-unbalanced-end-marker': True}
    return {}


def main(tier):
    ck = propcheck.Check('C16', tier)
    ck.died_confirms = False
    ck.assumptions += ['map iteration order fixed to insertion order in this check (order independence of the parser is decided by C03)',
                       'exit status is a function of how the command body ends: RunE returning non-nil -> Execute exits 1; logger.Fatal -> exit 1; logger.Panic / runtime panic -> exit 2; normal return -> 0 (contracts of cobra and zerolog)',
                       'fault classes ENUMERATED (missing include (top level, in a block, of include-except), missing exclude file, flags line in an include file, unknown stored name (top level, nested block), unknown stored name, too many / too few end markers, unknown processor, unknown cmdline type, unsupported flag, odd replacement list, malformed entry via a failing rassemble stub, missing identifier, rule id / chain offset / rules file not found or ambiguous, unbalanced marker for format); the position of the faulty file in an --all run and --all vs single mode are enumerated per job, the output format is symbolic',
                       'reading chosen for --all: the run must not exit 0; files that completed before the fault are not rolled back']
    jobs = []
    for cmd in (0, 1):
        for fault in range(0, 19):
            for allm, posn in ((0, 1), (1, 0), (1, 1), (1, 2)):
                if fault == 11 and allm:
                    continue
                jobs.append(('cmd.VerifC16Fault', dict(params={'fault': fault, 'cmd': cmd, 'all': allm, 'position': posn}, unwind=40, exclude=exclude, timeout_ms=120000, terminal_obligations=(), hooks={'fixed_map_order': True})))
    jobs.append(('cmd.VerifC16FormatFault', dict(unwind=40, exclude=exclude, timeout_ms=120000, terminal_obligations=(), hooks={'fixed_map_order': True})))
    rs, viol = ck.run('faults', jobs, bounds={'fault_classes': 19, 'commands': ['update', 'compare', 'format'], 'all_position': 'first/middle/last, enumerated'})
    ck.triage(viol)
    return ck.finish()
