"""C15 - inspecting commands never write; rewriting commands touch only their targets."""
import propcheck
from sym import *
import c09


def exclude(ctx, ob):
    if ob.kind != 'assert' or 'renumber-tests writes only' not in ob.name:
        return {}
    name = c09._nd(ctx, 'name')
    if name is None:
        return {}
    # known: RuleIdTestFileNameRegex makes the extension optional: a file called NNNNNN (no extension) is rewritten
    digits = b_and(*[b_and(i_cmp('>=', name.b[i], 48, 8, False), i_cmp('<=', name.b[i], 57, 8, False)) for i in range(min(6, name.cap))])
    return {'C15-extensionless-test-file-rewritten': b_and(i_cmp('==', name.ln, 6, W, True), digits) if name.cap >= 6 else False}


def main(tier):
    ck = propcheck.Check('C15', tier)
    ck.assumptions += ['write sinks: every os.WriteFile reached is logged with its path and guard; no other file-modifying call (Create, OpenFile, Remove, Rename, Mkdir, Chmod) occurs in the encoded call trees (such a call would make the run inconclusive: it has no model)',
                       'directory walks: the modelled tree is walked in lexical order, then ONE arbitrary entry (symbolic name over a small alphabet, symbolic IsDir) directly below the walk root; symlinks and OS behaviour of WriteFile are outside',
                       'version, completion and self-update are not encoded (cobra generators write to the given io.Writer; version reaches the network)']
    jobs = []
    for L in range(1, 12 if tier == 'quick' else 12):
        for content in ((0, 1) if L != 11 else (0, 1, 2, 3)):
            jobs.append(('util.VerifC15Renumber', dict(fixlen={'name': L}, params={'content': content}, unwind=40, exclude=exclude, timeout_ms=120000)))
    for L in range(1, 10 if tier == 'quick' else 11):
        jobs.append(('chore.VerifC15Copyright', dict(fixlen={'name': L}, unwind=40, timeout_ms=120000)))
        jobs.append(('cmd.VerifC15Format', dict(fixlen={'name': L}, unwind=60, timeout_ms=120000, hooks={'fixed_map_order': True})))
    jobs.append(('cmd.VerifC15UpdateCompare', dict(unwind=40, timeout_ms=120000, hooks={'fixed_map_order': True})))
    rs, viol = ck.run('write-sinks', jobs, bounds={'entry_name_len': '1..11', 'commands': ['renumber-tests [--check]', 'update-copyright', 'format --all [--check]', 'update [--all]', 'compare [--all] [-o github]']})
    ck.triage(viol)
    return ck.finish()
