"""C10 - format never changes what a file means or says (per-line content preservation)."""
import propcheck
import pike
import intrinsics
from sym import *
import c09


def _trimmed(ctx):
    l = c09._nd(ctx, 'line')
    return intrinsics.trim_left_set(l, [32, 9])


def _rx(ctx, frag):
    for p in ctx.hooks.get('patterns', {}):
        if frag in p:
            return pike.prog_of(p)
    return None


def exclude(ctx, ob):
    out = {}
    t = _trimmed(ctx)
    inc = _rx(ctx, 'include\\s+(\\S+)(?:')      # IncludeRegex (unanchored)
    if inc is not None:
        m, caps, _ = pike.match(inc, t)
        # known: IncludeRegex is not anchored: any text before `##!> include` is dropped (a comment becomes an include)
        out['C10-text-before-include-dropped'] = b_and(m, i_cmp('>', caps[0], 0, W, True))
    bs = _rx(ctx, '(assemble|cmdline)')
    if bs is not None:
        m, caps, _ = pike.match(bs, t)
        # known: ProcessorBlockStartRegex is not anchored at the end: text after the first argument is dropped
        # (signature: the dropped tail is separated from the argument by white space - the pattern's `(\S+)?` takes every
        #  non-blank byte that follows, so anything else that gets lost is a different defect)
        nxt = s_byte(t, caps[1])
        ws = b_or(*[i_cmp('==', nxt, c, 8, False) for c in (32, 9, 12, 13)])
        out['C10-block-start-tail-dropped'] = b_and(m, i_cmp('<', caps[1], t.ln, W, True), ws)
    # known: `--` with an empty replacement list is dropped (the formatter rebuilds the directive from its groups)
    tr = intrinsics.trim_right_set(t, [32, 9])
    dash = b_and(i_cmp('>=', tr.ln, 2, W, True), s_has_suffix(tr, s_const('--')))
    incx = _rx(ctx, 'include-except')
    anyinc = False
    for rx in (inc, incx):
        if rx is not None:
            m, _, _ = pike.match(rx, t)
            anyinc = b_or(anyinc, m)
    out['C10-dangling-replacement-separator-dropped'] = b_and(dash, anyinc)
    if ctx.hooks['params'].get('indent') == 0:
        be = _rx(ctx, '^##!<')
        if be is not None:
            m, _, _ = pike.match(be, t)
            out['C10-unbalanced-end-marker-line-dropped'] = m
    return out


def exclude_meaning(ctx, ob):
    return {}


def main(tier):
    ck = propcheck.Check('C10', tier)
    N = 16 if tier == 'quick' else 22
    ck.assumptions += ['per-line step of format (parser TrimLeft + processLine); line bytes printable ASCII; one job per length and indentation depth',
                       'file-level composition (same classified lines before and after => same regex) is an argument, not a query; the whole-file before/after comparison is part of the translation-validation family']
    jobs = [('cmd.VerifC10LineContent', dict(fixlen={'line': L}, params={'indent': d}, unwind=N + 12, exclude=exclude, timeout_ms=120000, terminal_obligations=()))
            for L in range(0, N + 1) for d in (0, 1) if not (tier == 'quick' and d == 1 and L == N)]
    rs, viol = ck.run('line-content', jobs, job_timeout=600 if tier == 'quick' else 3000, bounds={'line_len': '0..%d (depth 1: 0..%d)' % (N, N - 1 if tier == 'quick' else N), 'indent': [0, 1]})
    ck.triage(viol)
    # meaning: ANY ASCII line (control bytes included): same classification by the compiler before and after, entries byte-identical
    M = 9 if tier == 'quick' else 14
    jobs = [('cmd.VerifC10LineMeaning', dict(fixlen={'line': L}, params={'indent': d}, unwind=M + 16, exclude=exclude_meaning, timeout_ms=120000, terminal_obligations=(), hooks={'fixed_map_order': True}))
            for L in range(0, M + 1) for d in (0, 1)]
    rs, viol = ck.run('line-meaning', jobs, job_timeout=420 if tier == 'quick' else 2400, bounds={'line_len': '0..%d' % M, 'alphabet': 'ASCII 0x01..0x7f without newline', 'indent': [0, 1]})
    ck.triage(viol)
    jobs = [('cmd.VerifC10RejectedLine', dict(fixlen={'line': L}, unwind=60, timeout_ms=120000, terminal_obligations=(), hooks={'fixed_map_order': True, 'compact': True})) for L in range(4, 7)]
    rs, viol = ck.run('rejected-line', jobs, bounds={'line_len': '4..6 over {# ! < > blank a}'})
    ck.triage(viol)
    # translator validation for the strings.Fields contract model (used when a formatter splits directive arguments)
    jobs = [('cmd.VerifFieldsModel', dict(fixlen={'line': L}, unwind=40, timeout_ms=120000, terminal_obligations=(), hooks={'fixed_map_order': True})) for L in range(0, 7)]
    rs, viol = ck.run('fields-model', jobs, bounds={'line_len': '0..6 ASCII'})
    ck.triage(viol)
    return ck.finish()
