"""C19 - generate never crashes or hangs, whatever bytes it is given (runtime-fault and unwinding obligations)."""
import propcheck
import c02
from sym import *


def exclude(ctx, ob):
    if ob.kind == 'panic':
        return {'C19-escaped-paren-flag-group-panic': c02.sig_escaped_paren_flag(ctx)}
    return {}


def only(ob):
    return ob.kind == 'panic'


def only_or_termination(ob):
    return ob.kind == 'panic'


def main(tier):
    ck = propcheck.Check('C19', tier)
    N, heavy = (7, 6) if tier == 'quick' else (12, 8)
    ck.assumptions += ['clean-up passes: text of printer shape (PG+), fixed length per job; every index, slice and nil obligation and every loop unwinding bound is a solver query',
                       'crashes or non-termination inside rassemble-go, regexp/syntax and yaml are not encoded']
    deep = 3 if tier == 'quick' else 7
    jobs = c02.lemma_jobs(N, exclude, only, heavyN=heavy, deep=deep, hexN=6 if tier == 'quick' else 9)
    rs, viol = ck.run('clean-up passes', jobs, bounds={'text_len': '0..%d over all printable ASCII (flag-group pass 0..%d), %d..%d over the representative alphabet' % (N, heavy, N + 1, N + deep)})
    ck.triage(viol)
    # termination of definition expansion on cyclic / self-referential definitions: the unwinding obligations are the property
    jobs = [('regex/parser.VerifC19ExpandTerminates', dict(params={'shape': sh}, unwind=8, hooks={'choice_strings': True}, timeout_ms=120000, terminal_obligations=(), unwind_is_violation=True)) for sh in range(4)]
    rs, viol = ck.run('definition-expansion-terminates', jobs, bounds={'definition_shapes': ['self reference with growth', 'two-cycle', 'pure self reference', 'chain'], 'unwind': 8})
    ck.triage(viol)
    # in the skeleton-guided jobs a loop of the clean-up passes that can exceed its bound is a violation candidate (hang)
    sj, sb = c02.shaped_jobs(tier, exclude, only_or_termination, term=True)
    rs, viol = ck.run('flag-groups-shaped', sj, bounds=sb, job_timeout=420 if tier == 'quick' else 1500)
    ck.triage(viol)
    return ck.finish()
