"""C19 - generate never crashes or hangs, whatever bytes it is given (runtime-fault and unwinding obligations)."""
import propcheck
import c02
from sym import *


def exclude(ctx, ob):
    if ob.kind == 'panic':
        return {'C19-escaped-paren-flag-group-panic': c02.sig_escaped_paren_flag(ctx)}
    return {}


def only(ob):
    return ob.kind == 'panic'


def main(tier):
    ck = propcheck.Check('C19', tier)
    N, heavy = (7, 6) if tier == 'quick' else (12, 9)
    ck.assumptions += ['clean-up passes: text of printer shape (PG+), fixed length per job; every index, slice and nil obligation and every loop unwinding bound is a solver query',
                       'crashes or non-termination inside rassemble-go, regexp/syntax and yaml are not encoded']
    jobs = c02.lemma_jobs(N, exclude, only, heavyN=heavy)
    rs, viol = ck.run('clean-up passes', jobs, bounds={'text_len': '0..%d (flag-group pass 0..%d)' % (N, heavy)})
    ck.triage(viol)
    return ck.finish()
