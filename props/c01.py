"""C01 - generated regex matches exactly the language the assembly file describes (translation validation):
every program of a bounded family is compiled by the REAL pipeline built from /repo; the solver decides, for all
subject strings of every length, whether the printed regex and the plain reading of the file accept the same strings."""
import itertools
import json
import os
import re
import sys
import time

import propcheck
import runner
import tv
import rxlang
import pike

ATOMS_FULL = ['a', 'ab', 'ac', 'b', 'abc', 'a+', 'a*', 'a?', '[ab]', '[^a]', '.', '\\s', '\\S', '\\d', '"', '\\\\', '\\x41',
              'a|b', '^a', 'b$', 'a{2}', '(?:ab)?', 'é', '\\t\\n\\f\\r x', 'c|d', 'x\\.y', '[a-c]x', '\\(', 'a b']
ATOMS_SMALL = ['a', 'ab', 'b', 'a+', '[ab]', '[^a]', '.', '\\s', '"', 'a|b', '^a', 'b$', 'c|d', 'ac']

OPEN, CLOSE, MARK = '##!> assemble', '##!<', '##!=>'


def templates():
    """(name, number of slots, function slots -> list of lines)"""
    T = []
    T.append(('one', 1, lambda x: [x[0]]))
    T.append(('one-marker', 1, lambda x: [x[0], MARK]))
    T.append(('two', 2, lambda x: [x[0], x[1]]))
    T.append(('seg2', 2, lambda x: [x[0], MARK, x[1]]))
    T.append(('seg2-trailing', 2, lambda x: [x[0], MARK, x[1], MARK]))
    T.append(('nested-one', 2, lambda x: [OPEN, x[0], CLOSE, x[1]]))
    T.append(('store-use', 2, lambda x: [x[0], '##!=< n', x[1], '##!=> n']))
    T.append(('prefix', 2, lambda x: ['##!^ ' + x[0], x[1], 'zz']))
    T.append(('suffix', 2, lambda x: ['##!$ ' + x[0], x[1], 'zz']))
    T.append(('flag-i', 2, lambda x: ['##!+ i', x[0], x[1]]))
    T.append(('flag-s', 2, lambda x: ['##!+ s', x[0], x[1]]))
    T.append(('three', 3, lambda x: [x[0], x[1], x[2]]))
    T.append(('two-one', 3, lambda x: [x[0], x[1], MARK, x[2]]))
    T.append(('one-two', 3, lambda x: [x[0], MARK, x[1], x[2]]))
    T.append(('one-one-one', 3, lambda x: [x[0], MARK, x[1], MARK, x[2]]))
    T.append(('nested-two', 3, lambda x: [OPEN, x[0], x[1], CLOSE, x[2]]))
    T.append(('nested-seg', 3, lambda x: [x[0], OPEN, x[1], MARK, x[2], CLOSE]))
    T.append(('store-use3', 3, lambda x: [x[0], '##!=< n', x[1], '##!=> n', x[2]]))
    T.append(('nested-store', 3, lambda x: [OPEN, x[0], '##!=< n', CLOSE, x[1], '##!=> n', x[2]]))
    T.append(('prefix-suffix', 3, lambda x: ['##!^ ' + x[0], '##!$ ' + x[1], x[2], 'zz']))
    T.append(('flag-is', 3, lambda x: ['##!+ is', x[0], x[1], MARK, x[2]]))
    return T


def usable_in_directive(a):
    return not (' ' in a)


def family(tier):
    progs = []
    for name, n, f in templates():
        pool = ATOMS_FULL if n <= 2 else (ATOMS_SMALL if tier == 'quick' else ATOMS_FULL[:20])
        if tier == 'quick' and n == 2:
            pool = ATOMS_FULL[:22]
        for xs in itertools.product(pool, repeat=n):
            if name in ('prefix', 'suffix', 'prefix-suffix'):
                k = 2 if name == 'prefix-suffix' else 1
                if any((not usable_in_directive(a)) or '|' in a or a in ('^a', 'b$') for a in xs[:k]):
                    continue
            if name.startswith('flag-i') or name == 'flag-is':
                if any(re.search('[A-Z]', a) or '\\x41' in a for a in xs):
                    continue    # the i flag presupposes lower-case sources
            lines = f(xs)
            progs.append({'src': '\n'.join(lines) + '\n', 'tags': [name], 'atoms': list(xs), 'lines': lines})
    return progs


# ------------------------------------------------------------------ known-finding predicates (structural)
SAMPLE = ['a', 'b', 'c', 'z', 'A', ' ', '\t', '\n', '"', '0', 'é', '\\', '(', '.']
SINGLE = {'a': 'a', 'b': 'b', '[ab]': '[ab]', '[^a]': '[^a]', '.': '.', '\\s': r'\s', '\\S': r'\S', '\\d': r'\d', '"': '"',
          '\\\\': r'\\', '\\x41': 'A', 'é': 'é', '\\(': r'\(', 'a|b': '[ab]', 'c|d': '[cd]'}


def segments(lines):
    """top-level view: list of segments (lists of entry lines) of every block, flattened"""
    segs = [[]]
    for l in lines:
        if l.startswith('##!=>') or l.startswith('##!=<') or l == OPEN or l == CLOSE:
            segs.append([])
        elif l.startswith('##!'):
            continue
        else:
            segs[-1].append(l)
    return [s for s in segs if s]


def k_single_entry_alternation_before_marker(p):
    lines = [l for l in p['lines'] if not re.match(r'^##![\^$+]', l)]
    cur = []
    for l in lines + ['<end>']:
        if l.startswith('##!=>') or l.startswith('##!=<'):
            if len(cur) == 1 and '|' in cur[0]:
                return True
            cur = []
        elif l in (OPEN, CLOSE, '<end>'):
            cur = []
        else:
            cur.append(l)
    return False


def k_classes_merge_to_anychar(p):
    if any(l.startswith('##!+') and 's' in l for l in p['lines']):
        return False
    for seg in segments(p['lines']):
        singles = [SINGLE[e] for e in seg if e in SINGLE]
        if len(singles) < 2:
            continue
        if all(any(re.fullmatch(s, c) for s in singles) for c in SAMPLE):
            return True
    # prefix/suffix-free nested results can also merge across a nested block and its sibling
    flat = [SINGLE[e] for e in p['lines'] if e in SINGLE]
    if len(flat) >= 2 and all(any(re.fullmatch(s, c) for s in flat) for c in SAMPLE):
        return True
    # the same merge after common prefix/suffix factoring: [^a]X next to aX (or Xa / X[^a])
    ents = [e for e in p['lines'] if not e.startswith('##!')]
    return '[^a]' in ents and any(e != '[^a]' and (e.startswith('a') or e.endswith('a') or e in ('[ab]', '[a-c]x')) for e in ents)


def k_literal_perl_space_sequence(p):
    return any('\\t\\n\\f\\r ' in l for l in p['lines'])


def k_case_variants_merge_into_stripped_flag_group(p):
    """entries that differ only in letter case (a and \\x41 = A) are merged by rassemble into (?i:A); the flag group is stripped"""
    for seg in segments(p['lines']) + [[e for e in p['lines'] if e in SINGLE]]:
        if '\\x41' in seg and any(e in ('a', 'a|b', '[ab]') for e in seg):
            return True
    return False


KNOWN = [('C01-case-variant-entries-lose-lower-case', k_case_variants_merge_into_stripped_flag_group), ('C01-single-entry-alternation-pasted-literally', k_single_entry_alternation_before_marker),
         ('C01-classes-merging-to-any-char-lose-newline', k_classes_merge_to_anychar),
         ('C01-literal-space-sequence-rewritten-to-class', k_literal_perl_space_sequence)]


def go_matches(pattern, subject):
    try:
        r = pike.go_match(pattern, [subject.encode('utf-8')])
        return r[0] is not None
    except Exception:
        return None


def run_tv(ck, progs, group, timeout_s=20):
    import tempfile
    t0 = time.time()
    binary = tv.build_tvrun(ck.scratch)
    rows = tv.compare_programs(binary, progs, timeout_s=timeout_s)
    stats = {}
    for r in rows:
        stats[r['status']] = stats.get(r['status'], 0) + 1
    ck.groups.append({'group': group, 'programs': len(progs), 'status_counts': stats, 'wall_s': round(time.time() - t0, 1)})
    ck.queries += sum(1 for r in rows if 'seconds' in r)
    ck.solver_s += sum(r.get('seconds', 0) for r in rows)
    ck.counts['unsat'] += stats.get('equal', 0)
    ck.counts['sat'] += stats.get('differ', 0)
    ck.counts['unknown'] += stats.get('unknown', 0)
    return rows


def triage_tv(ck, progs, rows, known, pid):
    """confirmed differences outside the known structural classes are violations"""
    seen_known = {}
    nviol = 0
    for p, r in zip(progs, rows):
        st = r['status']
        if st in ('equal',):
            continue
        if st in ('unknown', 'untranslatable', 'ref-rejects'):
            if st == 'unknown':
                ck.inconclusive.append({'why': 'solver timeout on program', 'src': p['src'][:200]})
            continue
        kid = None
        for name, pred in known:
            if name in runner.active_known() and pred(p):
                kid = name
                break
        confirmed = False
        detail = ''
        if st == 'differ':
            a, b = go_matches(r['out'], r['witness']), go_matches(r['ref'], r['witness'])
            confirmed = (a is not None and b is not None and a != b)
            detail = 'witness %r: printed regex %s, reference %s' % (r['witness'], 'matches' if a else 'does not match', 'matches' if b else 'does not match')
        elif st in ('died', 'hang', 'error', 'differ-empty'):
            confirmed = True
            detail = '%s: %s %s' % (st, r.get('err') or '', (r.get('detail') or '')[-200:])
        if not confirmed:
            ck.inconclusive.append({'why': 'solver witness not confirmed by Go regexp', 'src': p['src'][:200], 'witness': r.get('witness')})
            continue
        if kid:
            if kid not in seen_known:
                seen_known[kid] = {'id': kid, 'detail': '%s | program %r -> %r (reference %r)' % (detail, p['src'], r.get('out'), r.get('ref'))}
            continue
        nviol += 1
        if nviol <= 5:
            path = os.path.join(ck.replay_dir, 'tv-%d.json' % nviol)
            json.dump({'kind': 'tv', 'src': p['src'], 'files': p.get('files'), 'out': r.get('out'), 'ref': r.get('ref'), 'witness': r.get('witness'), 'status': st, 'detail': detail},
                      open(path, 'w'), indent=1, ensure_ascii=False)
            ck.violations.append({'harness': 'tv.' + pid, 'name': '%s generated regex differs from the plain reading' % pid, 'pos': None, 'replay': path,
                                  'model': {'program': {'kind': 'str', 'text': p['src']}, 'witness': {'kind': 'str', 'text': repr(r.get('witness'))}},
                                  'replay_outcome': detail + ' | out=%r ref=%r' % (r.get('out'), r.get('ref'))})
    for k in seen_known.values():
        ck.known_seen.append(k)
    return nviol


def main(tier):
    ck = propcheck.Check('C01', tier, level='translation_validation')
    ck.assumptions += ['program axis ENUMERATED (rassemble-go and regexp/syntax are pointer-rich AST rewriters outside the encoder): %s templates over an atom pool chosen to trigger every merge rule and clean-up pass' % len(templates()),
                       'subject-string axis fully symbolic: one solver query (z3 5.1.0 sequence/regex theory) decides all strings of every length over code points 1..0x2FFFD minus U+000B',
                       'reference = plain reading of the DSL: every entry parsed on its own by Go\'s syntax.Parse and used as a unit; blocks concatenated at ##!=>; stored names substituted; prefixes/suffixes around the whole alternation; flags global',
                       'translation regexp/syntax AST -> RegLan is trusted; every solver witness is confirmed with Go\'s regexp before it counts']
    progs = family(tier)
    rows = run_tv(ck, progs, 'family')
    triage_tv(ck, progs, rows, KNOWN, 'C01')
    stats = {}
    for r in rows:
        stats[r['status']] = stats.get(r['status'], 0) + 1
    samples = []
    for p, r in list(zip(progs, rows))[:: max(1, len(progs) // 8)][:8]:
        samples.append({'program': p['src'], 'printed': r.get('out'), 'reference': r.get('ref'), 'verdict': r['status'], 'solver_s': r.get('seconds')})
    cov = {'programs': len(progs), 'disagreements_checked': stats.get('differ', 0) + stats.get('died', 0) + stats.get('error', 0) + stats.get('differ-empty', 0),
           'samples': samples, 'status_counts': stats, 'enumerated_axis': 'programs (templates x atoms)', 'symbolic_axis': 'subject strings, unbounded length'}
    ck.samples = samples
    return ck.finish(coverage_extra=cov, rule='one evaluation = one program compiled by the real pipeline and compared with its reference reading by one solver query over all subject strings; non-trivial = the query reached the solver (both sides non-empty and translatable)')
