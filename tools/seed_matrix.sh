#!/bin/bash
# run the relevant checks against every seeded change (applies the patch to /repo, runs, undoes it)
cd /verif
mkdir -p /tmp/seedrun
while read seed checks; do
  p=/verif/seeded/$seed/patch.diff
  git -C /repo apply "$p" || { echo "$seed APPLY-FAILED" >> /tmp/seedrun/summary.txt; continue; }
  for id in $checks; do
    timeout 1500 ./check $id --tier quick > /tmp/seedrun/${seed}_$id.log 2>&1; rc=$?
    nv=$(grep -c '^VIOLATION' /tmp/seedrun/${seed}_$id.log)
    echo "$seed $id rc=$rc violations=$nv $(grep -E "^$id quick" /tmp/seedrun/${seed}_$id.log | cut -c1-160)" >> /tmp/seedrun/summary.txt
  done
  git -C /repo checkout -- . ; git -C /repo status --short >> /tmp/seedrun/summary.txt
done <<'L'
C18-a C18
C18-b C18
C11-a C11 C12
C11-b C11
C12-a C12
C12-b C12
C04-a C04
C04-b C04
C05-a C05
C05-b C05
C06-a C06
C06-b C06 C03
C07-a C07
C07-b C07 C01
C15-a C15
C15-b C15 C16
C16-a C16 C08
C16-b C16
C17-a C17
C17-b C17
C08-a C08
C08-b C08
C13-a C13
C13-b C13
C03-a C03
C03-b C03
C01-a C01 C05
C01-b C01
C19-a C19 C06
C19-b C19 C07
C02-a C02 C19
C02-b C02
C14-a C14
C14-b C14
C09-a C09
C09-b C09
C10-a C10
C10-b C10
L
echo DONE >> /tmp/seedrun/summary.txt
