#!/bin/bash
# tools/seed_confirm.sh <ID> <a|b> : confirm a seeded change in a scratch worktree (never in /repo):
#   demonstration passes on the pinned tree, fails with the change; build and existing test suite still pass.
# writes /tmp/seed_eval/<ID>_<x>.txt
export GOFLAGS=-mod=mod GOPROXY=off GOSUMDB=off GOTOOLCHAIN=local
id=$1; x=$2; src=/tmp/seeds/$id; wt=/tmp/wt-eval-$id$x; out=/tmp/seed_eval/${id}_$x.txt
mkdir -p /tmp/seed_eval; rm -rf $wt; git -C /repo worktree add -q --detach $wt HEAD || exit 9
cp -r $src $wt/_seed
cd $wt
{
echo "seed $id/$x"
timeout 600 bash _seed/$x/run.sh > /tmp/seed_eval/${id}_${x}_base.log 2>&1; echo "demo_on_pinned_tree_rc=$?"
git status --short | grep -v '_seed' | head -3
git checkout -q -- . ; git clean -fdq -e _seed
git apply _seed/$x/patch.diff; echo "apply_rc=$?"
timeout 600 bash _seed/$x/run.sh > /tmp/seed_eval/${id}_${x}_patched.log 2>&1; echo "demo_with_change_rc=$?"
git clean -fdq -e _seed
go build ./... > /tmp/seed_eval/${id}_${x}_build.log 2>&1; echo "build_rc=$?"
go test -vet=off -count=1 ./... > /tmp/seed_eval/${id}_${x}_suite.log 2>&1
echo "suite_failed_pkgs=$(grep -E '^(FAIL|---)' /tmp/seed_eval/${id}_${x}_suite.log | grep -E '^FAIL' | awk '{print $2}' | sort -u | tr '\n' ' ')"
echo "suite_failed_tests=$(grep -E '^\s*--- FAIL' /tmp/seed_eval/${id}_${x}_suite.log | awk '{print $3}' | sort -u | tr '\n' ' ')"
} > $out 2>&1
cd /; git -C /repo worktree remove --force $wt
cat $out
