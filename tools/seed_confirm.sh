#!/bin/bash
# tools/seed_confirm.sh <seed> [patchfile] : confirm a stored seeded change in a scratch worktree of /repo HEAD (never in /repo):
#   the demonstration passes on the unchanged tree and fails with the change; the change builds and the pinned test
#   suite (236 tests of /root/.vp/BASELINE.json) still passes. Prints one summary line; worktree removed afterwards.
export GOFLAGS=-mod=mod GOPROXY=off GOSUMDB=off GOTOOLCHAIN=local
seed=$1; x=${seed##*-}; patch=${2:-/verif/seeded/$seed/patch.diff}
wt=/tmp/verif-confirm-$seed-$$; log=/tmp/verif-confirm-$seed.log
git -C /repo worktree add -q --detach $wt HEAD || exit 9
mkdir -p $wt/_seed/$x; cp -r /verif/seeded/$seed/* $wt/_seed/$x/; cp -r /verif/seeded/$seed/* $wt/_seed/   # both layouts: _seed/<x>/... (round 1) and _seed/... (round 2)
cd $wt
RUN=_seed/$x/run.sh; case "$x" in a|b) ;; *) RUN=_seed/run.sh;; esac   # round-2 seeds expect their files directly under _seed/
timeout 900 bash $RUN > $log.base 2>&1; base=$?
git checkout -q -- . ; git clean -fdq -e _seed
git apply $patch; ap=$?
timeout 900 bash $RUN > $log.patched 2>&1; pat=$?
git clean -fdq -e _seed
go build ./... > $log.build 2>&1; b=$?
suite=$(python3 /verif/tools/repo_tests.py $wt | head -1)
cd /; git -C /repo worktree remove --force $wt
echo "$seed apply_rc=$ap demo_unchanged_rc=$base demo_with_change_rc=$pat build_rc=$b suite: $suite"
