#!/bin/bash
# tools/try_seed.sh <patch.diff> <ID> [ID...] : apply a seeded change to /repo, run the checks, undo
p=$1; shift
git -C /repo apply "$p" || exit 9
for id in "$@"; do
  timeout ${SEED_TIMEOUT:-1500} /verif/check $id --tier ${SEED_TIER:-quick} > /tmp/try_seed_$id.log 2>&1; rc=$?
  echo "== $id rc=$rc $(grep -c '^VIOLATION' /tmp/try_seed_$id.log) violations; $(grep -E "^$id (quick|thorough)" /tmp/try_seed_$id.log)"
  grep -A1 '^VIOLATION' /tmp/try_seed_$id.log | head -4
  grep '^INCONCLUSIVE' /tmp/try_seed_$id.log | head -3 | cut -c1-400
done
git -C /repo checkout -- . ; git -C /repo status --short
