#!/bin/bash
# tools/run_all.sh [tier] [ids...] : run the checks one after the other on /repo, logs under /tmp/verif-all/
tier=${1:-quick}; shift
ids=${@:-C01 C02 C03 C04 C05 C06 C07 C08 C09 C10 C11 C12 C13 C14 C15 C16 C17 C18 C19}
mkdir -p /tmp/verif-all
for id in $ids; do
  /usr/bin/time -f "%e s" ./check $id --tier $tier > /tmp/verif-all/$id.log 2>&1; rc=$?
  echo "$id rc=$rc $(grep -E "^$id $tier" /tmp/verif-all/$id.log) known=$(grep -c '^KNOWN-FINDING' /tmp/verif-all/$id.log) stale=$(grep -c '^STALE' /tmp/verif-all/$id.log) viol=$(grep -c '^VIOLATION' /tmp/verif-all/$id.log)"
done
