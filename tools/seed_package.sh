#!/bin/bash
# tools/seed_package.sh <PROP> <x> <worktree> : package what a seeding sub-agent left in its scratch worktree (uncommitted source
# change, zz_demo_test.go, SEED_NOTES.md) as /verif/seeded/<PROP>-<x>/ in the round-2 layout (patch.diff, demo/, run.sh, notes.md).
# meta.json is written with confirmed_by_me empty; tools/seed_confirm.sh fills the confirmation line by hand afterwards.
p=$1; x=$2; wt=$3; d=/verif/seeded/$p-$x
mkdir -p $d/demo
demo=$(cd $wt && git status --short | awk '$1=="??" && $2 ~ /zz_demo_test.go$/ {print $2}' | head -1)
[ -n "$demo" ] || { echo "no zz_demo_test.go in $wt"; exit 2; }
pkgdir=$(dirname $demo)
git -C $wt diff > $d/patch.diff
cp $wt/$demo $d/demo/zz_demo_test.go
cp $wt/SEED_NOTES.md $d/notes.md 2>/dev/null
cat > $d/run.sh <<R
#!/usr/bin/env bash
# Run from the worktree root. Exits non-zero iff the violation of $p shows.
export GOFLAGS=-mod=mod GOPROXY=off GOSUMDB=off GOTOOLCHAIN=local
cp _seed/demo/zz_demo_test.go $pkgdir/zz_demo_test.go
go test -vet=off -count=1 -run 'ZZDemo|Demo' ./$pkgdir/ 2>&1 | grep -v '"level":"info"'
status=\${PIPESTATUS[0]}
rm -f $pkgdir/zz_demo_test.go
exit \$status
R
chmod +x $d/run.sh
python3 - "$p" "$x" "$d" <<'PY'
import json, sys, re
p, x, d = sys.argv[1:]
title = [json.loads(l) for l in open('/verif/properties.jsonl') if json.loads(l)['id'] == p][0]['title']
files = re.findall(r'^diff --git a/(\S+)', open(d + '/patch.diff').read(), re.M)
notes = open(d + '/notes.md').read() if __import__('os').path.exists(d + '/notes.md') else ''
first = next((l.strip() for l in notes.splitlines() if l.strip() and not l.startswith('#')), '')
json.dump({'id': p + '-' + x, 'breaks_property': p, 'property_title': title,
           'written_by': 'independent sub-agent (round 3) that saw only the property text and a scratch worktree of /repo at the fix commits',
           'files_changed': files, 'summary': first[:400], 'needs_to_manifest': 'see notes.md (written by the seeding agent)',
           'confirmed_by_me': {}, 'checks_run': {}}, open(d + '/meta.json', 'w'), indent=1)
PY
grep -n "func Test" $d/demo/zz_demo_test.go | head -3
echo packaged $d
