#!/bin/bash
# tools/with_seed.sh <seed> <command...> : run a command with VERIF_REPO pointing at a scratch worktree of /repo that has the
# seeded change applied (removed afterwards). /repo itself is not touched.
seed=$1; shift
wt=/tmp/verif-seedwt/one-$seed-$$
mkdir -p /tmp/verif-seedwt
git -C /repo worktree add --detach "$wt" HEAD >/dev/null 2>&1 || exit 9
git -C "$wt" apply /verif/seeded/$seed/patch.diff || git -C "$wt" apply --3way /verif/seeded/$seed/patch.diff || { echo "patch does not apply"; git -C /repo worktree remove --force "$wt"; exit 9; }
VERIF_REPO=$wt VERIF_OUT=$wt.out VERIF_EVIDENCE_DIR=$wt.ev "$@"; rc=$?
git -C /repo worktree remove --force "$wt"; rm -rf "$wt" "$wt.out" "$wt.ev"
exit $rc
