#!/usr/bin/env python3
"""tools/repo_tests.py [DIR]: run the repository's test suite in DIR (default /repo) and compare with the pinned
baseline (/root/.vp/BASELINE.json stable_pass). Exit 0 iff every baseline test passes."""
import json, os, subprocess, sys
d = sys.argv[1] if len(sys.argv) > 1 else '/repo'
base = json.load(open('/root/.vp/BASELINE.json'))['stable_pass']
env = dict(os.environ, GOFLAGS='-mod=mod', GOPROXY='off', GOSUMDB='off', GOTOOLCHAIN='local')
r = subprocess.run(['go', 'test', '-json', '-vet=off', '-count=1', '-timeout', '25m', './...'], cwd=d, env=env, capture_output=True, text=True)
st = {}
for l in r.stdout.splitlines():
    try:
        e = json.loads(l)
    except Exception:
        continue
    if e.get('Test') and e.get('Action') in ('pass', 'fail', 'skip'):
        st[e['Package'] + '::' + e['Test']] = e['Action']
bad = [t for t in base if st.get(t) != 'pass']
print('%d baseline tests, %d pass, %d not passing' % (len(base), len(base) - len(bad), len(bad)))
for t in bad:
    print('  NOT PASSING:', t, st.get(t))
if not st:
    print(r.stdout[-2000:], r.stderr[-2000:])
sys.exit(1 if bad else 0)
