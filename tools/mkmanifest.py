#!/usr/bin/env python3
"""Regenerate MANIFEST.json from the table below (single source of truth for claimed checks)."""
import json, os
ROOT = os.path.dirname(os.path.dirname(os.path.abspath(__file__)))
ids = [json.loads(l)['id'] for l in open(os.path.join(ROOT, 'properties.jsonl'))]
MC = 'model_checking'
TV = 'translation_validation'
TRUST = ('go/ssa lowering of the current tree (x/tools v0.29.0); the SSA->SMT executor engine/gobmc.py and its library models engine/intrinsics.py; '
         'the regexp oracle engine/pike.py (exhaustively compared with Go regexp); z3 5.1.0; bounds as stated in the evidence file')
CHECKS = {
 'C18': dict(level=MC, technique='bounded symbolic execution of Go SSA (merged-path BMC over the current /repo tree) + exact regexp oracle + SMT (z3 QF_BV); solver models replayed natively',
             text='For every argument string up to the stated length the solver shows that parseRuleId accepts exactly NNNNNN[-chainK][.ra] with K<=255 and resolves id, file name and chain offset as documented; each length is decided separately and completely. Bounded (length), not a proof.',
             ref='DESIGN.md 4/C18'),
}
BMC = 'bounded symbolic execution of Go SSA (merged-path BMC over the current /repo tree) + exact regexp oracle + SMT (z3 QF_BV); solver models replayed natively'
TVT = 'translation validation: real pipeline output vs reference reading, one SMT query (z3 sequence/regex theory) per program over ALL subject strings; program axis enumerated'
def mc(text, ref): return dict(level=MC, technique=BMC, text=text, ref=ref)
def tvl(text, ref, extra=''): return dict(level=TV, technique=TVT + extra, text=text, ref=ref)
CHECKS['C01'] = tvl('Every program of a bounded family (21 structure templates x atom pool, ~30k programs in quick) is compiled by the real pipeline built from /repo; for each, one solver query decides for all subject strings of every length whether the printed regex and the plain reading of the file accept the same strings. Known defect classes are structural predicates on the program; everything outside them must agree.', 'DESIGN.md 4/C01')
CHECKS['C02'] = mc('Assume-guarantee decomposition of Operator.complete: one lemma per clean-up pass, decided for every printer-shaped text up to the stated length (each length separately; all printable bytes up to 7, a representative alphabet up to 11; skeleton-guided texts with real and look-alike flag groups for the flag-group pass): printable one-line output, quotes escaped, no plain backslash, VT in the space class, no inline flag group, sorted flag prefix for every map order.', 'DESIGN.md 4/C02')
CHECKS['C03'] = mc('Map iteration order is a symbolic schedule: parseLine is run twice with independent symbolic permutations of its 7 patterns on every line up to the stated length; expandDefinitions under all orders of its three map loops on enumerated definition shapes; include-except under every order of its line map; lists of two suffix-replacement pairs (all bytes symbolic) under two independent orders. Counterexamples are replayed in fresh processes until the runtime draws the offending order.', 'DESIGN.md 4/C03')
CHECKS['C04'] = tvl('cmdline blocks under six toolchain.yaml shapes are compiled by the real pipeline and compared with the documented expansion (all evasion strings of every length, one query per block); in addition regexpStr is executed symbolically for every word up to the stated length against an independent character-by-character reference.', 'DESIGN.md 4/C04', ' + bounded symbolic execution of regexpStr')
CHECKS['C05'] = tvl('Including programs x include files x positions are compiled by the real pipeline and compared (all subject strings) with the reference in which the include is inlined, own definitions local, prefixes/suffixes as a local block; flags in an include must be rejected.', 'DESIGN.md 4/C05')
CHECKS['C06'] = tvl('include-except and suffix-pair programs are compiled (12 fresh runs each) and compared with the hand-computed set difference / suffix rewrite; the one-pair and two-pair rewrites of replaceSuffixes are decided symbolically (entry, keys, replacements symbolic; two independent symbolic map orders), and include-except keeps the surviving entries in order under every iteration order of its line map.', 'DESIGN.md 4/C06', ' + bounded symbolic execution of replaceSuffixes / buildIncludeExceptString')
CHECKS['C07'] = mc('expandDefinitions is executed under ALL iteration orders of its three map loops (symbolic permutations) on enumerated definition shapes (depth-3 chains under several namings, diamond, undefined reference, braces) and must yield the hand-expanded text; in addition the VALUE of a definition is symbolic text (every printable byte, e.g. `$`, backslashes, single braces) pasted directly, through a second definition and next to quantifier braces.', 'DESIGN.md 4/C07')
CHECKS['C08'] = mc('Havoc harness on the package-level assembler state (arbitrary leftover processor, every sequence of up to 3 line kinds) with an inductive stack invariant; --all isolation and completeness on modelled trees through the real performUpdate/performCompare walk callbacks.', 'DESIGN.md 4/C08')
CHECKS['C09'] = mc('Per-line format step is a fixed point and has the canonical indentation for every line up to the stated length and depth 0..2; whole-file application (header, end of file, --check agreement, --check never writes) on enumerated file structures - without header and with the header already present (with / without its blank line) - with symbolic short lines and final-newline flag.', 'DESIGN.md 4/C09')
CHECKS['C10'] = mc('For every printable line up to the stated length and depth 0..1 the format step changes white space only; for every ASCII line (control bytes included) up to a smaller length the compiler classifies the formatted line as it classified the original and an entry keeps every byte apart from its indentation, and the value the compiler reads from a flags/prefix/suffix line (inner white space included) is unchanged; a line the step rejects makes format fail without writing. Known pattern defects excluded by signature.', 'DESIGN.md 4/C10')
CHECKS['C11'] = dict(level=MC, technique=BMC,
    text='For every old/new operand (printable ASCII satisfying the C02 invariants) up to the stated lengths, both operator spellings, trailing bytes on the rule line and an arbitrary earlier rule whose SecRule line may be identical, the solver shows that updateRegex changes exactly the operand bytes of the addressed rule; known defect classes are excluded by signature and a witness of each is replayed.',
    ref='DESIGN.md 4/C11')
CHECKS['C12'] = dict(level=MC, technique=BMC,
    text='For every operand up to the stated length the solver shows that compare reads back exactly the stored operand and that a second update is the identity on the file bytes (round trip decomposed into single-step lemmas); compare --all on a three-rule tree fails in GitHub mode exactly when some stored operand is stale, wherever it sits in the walk, and reports every rule in text mode.',
    ref='DESIGN.md 4/C12')
CHECKS['C13'] = mc('processYaml on enumerated file structures (id/title/other/empty/blank lines) with symbolic spacing, old values, trailing blanks and final-newline flag: n-th id is n, n-th title <rule>-n, other lines untouched, one final newline, second application identical; arbitrary old numbers (digit strings); single arbitrary line lemma; processFile in --check mode writes nothing and fails exactly when the rewrite would change the file.', 'DESIGN.md 4/C13')
CHECKS['C14'] = mc('One-step history lemma: from a marker line showing ANY accepted previous version, one run with any accepted version shows the new version/year (induction over runs gives history independence and idempotence); a line carrying two markers shows the new version in both; non-marker lines are byte-identical.', 'DESIGN.md 4/C14')
CHECKS['C15'] = mc('Every os.WriteFile reached is logged with guard and path: walks over a modelled tree plus one arbitrary directory entry (symbolic name and IsDir); --check variants never write, rewriting commands write only their targets.', 'DESIGN.md 4/C15')
CHECKS['C16'] = mc('Per fault class (19) and position the command body must not end with exit status 0 (normal return / nil error); exit status derived from how the body ends (Fatal, Panic, returned error); format on a file it cannot format fails and leaves the file byte-identical.', 'DESIGN.md 4/C16')
CHECKS['C17'] = mc('bufio.Scanner and bufio.Reader.ReadLine modelled by their contracts (token limit / pieces with isPrefix); a line longer than 64 KiB at a symbolic (or enumerated) position must be carried through completely or make the reader fail loudly - never silently drop, split or truncate lines - in each of five reader loops. A ReadLine result is a view of the reader buffer: extending it by append after a later read on the same reader is an obligation (stale buffer).', 'DESIGN.md 4/C17')
CHECKS['C19'] = mc('All runtime-fault obligations (index, slice, nil, division) and unwinding assertions generated while executing the clean-up passes on every printer-shaped text up to the stated length (plus skeleton-guided texts with real and look-alike flag groups); termination of definition expansion on cyclic and self-referential definitions (loop bound exceeded = violation candidate, confirmed by a native run that does not return).', 'DESIGN.md 4/C19')
NA = {
 'C20': 'decided inside go-selfupdate + net/http + SHA-256 over downloaded streams; not encodable by a hand-written SSA->SMT executor (DESIGN.md section 7)',
}
import subprocess
FIXES = subprocess.run(['git', '-C', '/repo', 'log', '--format=%h %s', '--grep=^fix:', 'e6783a7..HEAD'], capture_output=True, text=True).stdout.strip().splitlines()
checks = []
for pid, c in sorted(CHECKS.items()):
    checks.append({
        'property_id': pid,
        'quick_cmd': './check %s --tier quick' % pid,
        'thorough_cmd': './check %s --tier thorough' % pid,
        'evidence_file': '/verif/evidence/%s.json' % pid,
        'replay_cmd_template': './check --replay {path}',
        'engine': 'gobmc',
        'level_claimed': {'category': c['level'], 'text': c['text'], 'design_ref': c['ref']},
        'level_note': c.get('note', TRUST),
        'technique': c['technique'],
    })
na = [{'property_id': i, 'reason': NA.get(i, 'check not built yet (work in progress; see DESIGN.md section 4 for the plan)')} for i in ids if i not in CHECKS]
m = {'version': 1, 'setup_cmd': './setup.sh',
     'hooks': {'guard': 'verif', 'enable': 'harness files under /verif/harness carry //go:build verif and are injected in-package through go/packages Overlay (analysis) and `go test -tags verif -overlay` (replay); nothing is committed to /repo',
               'baseline_off_cmd': 'cd /repo && GOFLAGS=-mod=mod GOPROXY=off go test -vet=off -count=1 ./...', 'source_commits': [], 'add_only': True,
               'fix_commits': FIXES},
     'engines': [
        {'name': 'ssadump', 'path': 'engine/ssadump', 'serves_properties': sorted(CHECKS), 'kind_free_text': 'E0: go/packages+go/ssa dump of /repo working tree with harness overlay (JSON)'},
        {'name': 'gobmc', 'path': 'engine/gobmc.py', 'serves_properties': sorted(CHECKS), 'kind_free_text': 'E1: merged-path bounded model checker for Go SSA -> z3 (QF_BV), unwinding assertions, panic obligations'},
        {'name': 'rxlang', 'path': 'engine/rxlang.py', 'serves_properties': ['C01','C04','C05','C06'], 'kind_free_text': 'E3: regexp/syntax AST -> SMT-LIB RegLan, equivalence over unbounded strings (z3 5.1.0), tvrun = real pipeline built from /repo'},
        {'name': 'pike', 'path': 'engine/pike.py', 'serves_properties': sorted(CHECKS), 'kind_free_text': 'E2: exact leftmost-first regexp submatch oracle from Go syntax.Prog, symbolic subject bytes'},
     ],
     'checks': checks, 'not_applicable': na,
     'notes': 'All checks: ./check <ID> --tier quick|thorough (cwd /verif). Each run rebuilds the SSA of /repo working tree, re-extracts regex patterns from source, regenerates every formula, and replays solver models against the natively compiled code before reporting.'}
json.dump(m, open(os.path.join(ROOT, 'MANIFEST.json'), 'w'), indent=1)
print('claimed:', sorted(CHECKS), 'n/a:', len(na))
