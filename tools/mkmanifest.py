#!/usr/bin/env python3
"""Regenerate MANIFEST.json from the table below (single source of truth for claimed checks)."""
import json, os
ROOT = os.path.dirname(os.path.dirname(os.path.abspath(__file__)))
ids = [json.loads(l)['id'] for l in open(os.path.join(ROOT, 'properties.jsonl'))]
MC = 'model_checking'
TV = 'translation_validation'
TRUST = ('go/ssa lowering of the current tree (x/tools v0.29.0); the SSA->SMT executor engine/gobmc.py and its library models engine/intrinsics.py; '
         'the regexp oracle engine/pike.py (exhaustively compared with Go regexp); z3 5.1.0; bounds as stated in the evidence file')
CHECKS = {
 'C18': dict(level=MC, technique='bounded symbolic execution of Go SSA (merged-path BMC) + SMT (z3), native replay of models',
             text='For every argument string up to the stated length the solver shows that parseRuleId accepts exactly NNNNNN[-chainK][.ra] with K<=255 and resolves id, file name and chain offset as documented; each length is decided separately and completely. Bounded (length), not a proof.',
             ref='DESIGN.md 4/C18'),
}
CHECKS['C11'] = dict(level=MC, technique='bounded symbolic execution of updateRegex over Go SSA + exact regexp oracle + SMT (z3), native replay',
    text='For every old/new operand (printable ASCII satisfying the C02 invariants) up to the stated lengths, both operator spellings, trailing bytes on the rule line and an arbitrary earlier rule whose SecRule line may be identical, the solver shows that updateRegex changes exactly the operand bytes of the addressed rule; known defect classes are excluded by signature and a witness of each is replayed.',
    ref='DESIGN.md 4/C11')
CHECKS['C12'] = dict(level=MC, technique='bounded symbolic execution of readCurrentRegex/updateRegex over Go SSA + exact regexp oracle + SMT (z3), native replay',
    text='For every operand up to the stated length the solver shows that compare reads back exactly the stored operand and that a second update is the identity on the file bytes (round trip decomposed into single-step lemmas).',
    ref='DESIGN.md 4/C12')
NA = {
 'C20': 'decided inside go-selfupdate + net/http + SHA-256 over downloaded streams; not encodable by a hand-written SSA->SMT executor (DESIGN.md section 7)',
}
checks = []
for pid, c in sorted(CHECKS.items()):
    checks.append({
        'property_id': pid,
        'quick_cmd': './check %s --tier quick' % pid,
        'thorough_cmd': './check %s --tier thorough' % pid,
        'evidence_file': '/verif/evidence/%s.json' % pid,
        'replay_cmd_template': './check --replay {path}',
        'engine': 'gobmc',
        'level_claimed': {'category': c['level'], 'text': c['text'], 'design_ref': c['ref']},
        'level_note': c.get('note', TRUST),
        'technique': c['technique'],
    })
na = [{'property_id': i, 'reason': NA.get(i, 'check not built yet (work in progress; see DESIGN.md section 4 for the plan)')} for i in ids if i not in CHECKS]
m = {'version': 1, 'setup_cmd': './setup.sh',
     'hooks': {'guard': 'verif', 'enable': 'harness files under /verif/harness carry //go:build verif and are injected in-package through go/packages Overlay (analysis) and `go test -tags verif -overlay` (replay); nothing is committed to /repo',
               'baseline_off_cmd': 'cd /repo && GOFLAGS=-mod=mod GOPROXY=off go test -vet=off -count=1 ./...', 'source_commits': [], 'add_only': True},
     'engines': [
        {'name': 'ssadump', 'path': 'engine/ssadump', 'serves_properties': sorted(CHECKS), 'kind_free_text': 'E0: go/packages+go/ssa dump of /repo working tree with harness overlay (JSON)'},
        {'name': 'gobmc', 'path': 'engine/gobmc.py', 'serves_properties': sorted(CHECKS), 'kind_free_text': 'E1: merged-path bounded model checker for Go SSA -> z3 (QF_BV), unwinding assertions, panic obligations'},
        {'name': 'pike', 'path': 'engine/pike.py', 'serves_properties': sorted(CHECKS), 'kind_free_text': 'E2: exact leftmost-first regexp submatch oracle from Go syntax.Prog, symbolic subject bytes'},
     ],
     'checks': checks, 'not_applicable': na,
     'notes': 'All checks: ./check <ID> --tier quick|thorough (cwd /verif). Each run rebuilds the SSA of /repo working tree, re-extracts regex patterns from source, regenerates every formula, and replays solver models against the natively compiled code before reporting.'}
json.dump(m, open(os.path.join(ROOT, 'MANIFEST.json'), 'w'), indent=1)
print('claimed:', sorted(CHECKS), 'n/a:', len(na))
