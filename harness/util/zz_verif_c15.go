//go:build verif

package util

import (
	"github.com/coreruleset/crs-toolchain/v2/configuration"
	"github.com/coreruleset/crs-toolchain/v2/context"
)

func init() {
	vHarnesses["VerifC15Renumber"] = VerifC15Renumber
}

func isTestFileName(n string) bool {
	if len(n) < 6 {
		return false
	}
	for i := 0; i < 6; i++ {
		if n[i] < '0' || n[i] > '9' {
			return false
		}
	}
	return n[6:] == ".yaml" || n[6:] == ".yml"
}

// C15: renumber-tests --all with one ARBITRARY directory entry (symbolic name, file or directory) below the tests
// directory: --check never writes; otherwise the only file written is that entry, and only if it is a regular
// file named NNNNNN.yaml / NNNNNN.yml.
func VerifC15Renumber() {
	dir := vTempDir()
	root := dir + "/tests/regression/tests"
	name := vNondetStrOf("name", 11, "0123456789.yaml-x")
	isDir := vNondetBool("is_dir")
	check := vNondetBool("check")
	vAssume(len(name) > 0 && name != "." && name != "..")
	vWriteFile(root+"/REQUEST-920/keep.txt", "untouched\n")
	// content of the entry (job parameter): misnumbered; numbered correctly but without final newline; numbered correctly
	// with trailing blank lines; already canonical
	content := []string{"---\n  - test_id: 5\n", "---\n  - test_id: 1", "---\n  - test_id: 1\n\n \n", "---\n  - test_id: 1\n"}[vParam("content")]
	vWildEntry(root, name, isDir, content)
	vSnapshot(dir)
	ctxt := context.NewWithConfiguration(dir, &configuration.Configuration{})
	_ = NewTestRenumberer().RenumberTests(check, false, ctxt)
	vReach("walked")
	n := vWriteN()
	for i := 0; i < n; i++ {
		if vWriteGuard(i) {
			vAssert(!check, "C15 renumber-tests --check never writes")
			vAssert(vWritePath(i) == root+"/"+name && !isDir && isTestFileName(name), "C15 renumber-tests writes only NNNNNN.yaml/.yml files under the tests directory")
		}
	}
}
