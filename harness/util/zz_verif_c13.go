//go:build verif

package util

import (
	"strconv"
	"strings"
)

func init() {
	vHarnesses["VerifC13File"] = VerifC13File
	vHarnesses["VerifC13Line"] = VerifC13Line
	vHarnesses["VerifC13CheckMode"] = VerifC13CheckMode
	vHarnesses["VerifC13OldValue"] = VerifC13OldValue
}

const (
	kID = iota
	kTitle
	kOther
	kEmpty
	kBlank
)

// line i of a test file: the kind is a job parameter (file structure is enumerated); indentation, old value and
// trailing blanks are symbolic
func c13Pick(i int) (string, int) {
	n := strconv.Itoa(i)
	switch vParam("k" + n) {
	case 0:
		return "  - test_id:" + vNondetStrOf("sp"+n, 2, " ") + vNondetStrOf("val"+n, 2, "0129a") + vNondetStrOf("tr"+n, 1, " "), kID
	case 1:
		return "    test_title:" + vNondetStrOf("sp"+n, 2, " ") + "920100-" + vNondetStrOf("val"+n, 2, "0129"), kTitle
	case 2:
		return "    d" + vNondetStrOf("val"+n, 3, "ab: "), kOther
	case 3:
		return "", kEmpty
	}
	return vNondetStrOf("val"+n, 2, " \t"), kBlank
}

// C13 on whole files: K lines from the menu, optional final newline, CRLF or LF.
// Reference: the n-th id line is numbered n, the n-th title line <rule>-n, other lines untouched, trailing
// blank lines removed, exactly one final newline (empty result for a file without content).
func VerifC13File() {
	k := vParam("lines")
	finalNL := vNondetBool("final_newline")
	in := ""
	want := ""
	pending := "" // blank lines not yet known to be trailing
	ids, titles := 0, 0
	for i := 0; i < k; i++ {
		l, kind := c13Pick(i)
		if i > 0 {
			in += "\n"
		}
		in += l
		out := l
		switch kind {
		case kID:
			ids++
			out = "  - test_id: " + strconv.Itoa(ids)
		case kTitle:
			titles++
			out = "    test_title: 920100-" + strconv.Itoa(titles)
		}
		if kind == kEmpty || kind == kBlank {
			pending += out + "\n"
		} else {
			want += pending + out + "\n"
			pending = ""
		}
	}
	if finalNL && k > 0 {
		in += "\n"
	}
	t := NewTestRenumberer()
	got, err := t.processYaml("920100", []byte(in))
	vReach("processed")
	vAssert(err == nil, "C13 renumbering does not fail")
	vAssert(string(got) == want, "C13 n-th test_id is n, n-th test_title is <rule>-n, other lines untouched, one final newline")
	again, err2 := t.processYaml("920100", got)
	vAssert(err2 == nil && string(again) == string(got), "C13 renumbering twice equals renumbering once")
}

// C13 on one arbitrary line: a line that is neither an id nor a title line is emitted byte-identical;
// an id line keeps everything before the value and gets the number.
func VerifC13Line() {
	l := vNondetStrP("line", 20)
	t := NewTestRenumberer()
	got, err := t.processYaml("920100", []byte(l+"\n"))
	vReach("processed")
	vAssert(err == nil, "C13 renumbering does not fail")
	isID := strings.Contains(l, "test_id:")
	isTitle := strings.Contains(l, "test_title:")
	if !isID && !isTitle && len(strings.TrimSpace(l)) > 0 {
		vAssert(string(got) == l+"\n", "C13 a line without test_id:/test_title: is left untouched")
	}
}

// C13 (--check): on a test file of K menu lines (with or without final newline) `--check` writes nothing and fails exactly
// when the rewrite would change the file; the rewrite itself stores exactly the renumbered bytes.
func VerifC13CheckMode() {
	k := vParam("lines")
	finalNL := vNondetBool("final_newline")
	in := ""
	for i := 0; i < k; i++ {
		l, _ := c13Pick(i)
		if i > 0 {
			in += "\n"
		}
		in += l
	}
	if finalNL && k > 0 {
		in += "\n"
	}
	path := vTempDir() + "/tests/regression/tests/REQUEST-920/920100.yaml"
	vWriteFile(path, in)
	t := NewTestRenumberer()
	want, errY := t.processYaml("920100", []byte(in))
	vAssume(errY == nil)
	github := vNondetBool("github")
	errCheck := t.processFile(path, true, github)
	vReach("checked")
	vAssert(vReadFile(path) == in, "C13 renumber-tests --check writes nothing")
	vAssert((errCheck != nil) == (string(want) != in), "C13 renumber-tests --check fails exactly when a rewrite would change the file")
	errWrite := t.processFile(path, false, github)
	vAssert(errWrite == nil && vReadFile(path) == string(want), "C13 renumber-tests stores exactly the renumbered bytes")
}

// C13: whatever number (or text) an id line carried before, the n-th test_id is n afterwards: two tests whose old
// values are arbitrary digit strings (old numbers that start with the right digit, are equal, are swapped, ...).
func VerifC13OldValue() {
	a := vNondetStrOf("a", 3, "0123456789")
	b := vNondetStrOf("b", 3, "0123456789")
	vAssume(len(a) > 0 && len(b) > 0)
	in := "  - test_id: " + a + "\n    desc: x\n  - test_id: " + b + "\n"
	got, err := NewTestRenumberer().processYaml("920100", []byte(in))
	vReach("processed")
	vAssert(err == nil && string(got) == "  - test_id: 1\n    desc: x\n  - test_id: 2\n", "C13 the n-th test_id is n whatever value it carried before")
}
