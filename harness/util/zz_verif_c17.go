//go:build verif

package util

func init() {
	vHarnesses["VerifC17Yaml"] = VerifC17Yaml
}

func c17Lines(k int, long int) string {
	// ordinary lines differ from the long-line sentinel in their first byte only (keeps the symbolic part small)
	names := []string{"a<LINE-OF-70000-B>>", "b<LINE-OF-70000-B>>", "c<LINE-OF-70000-B>>", "d<LINE-OF-70000-B>>", "e<LINE-OF-70000-B>>"}
	out := ""
	for i := 0; i < k; i++ {
		if i == long {
			out += vLongLine() + "\n"
		} else {
			out += names[i][:19] + "\n"
		}
	}
	return out
}

func countLines(s string) int {
	n := 0
	for i := 0; i < len(s); i++ {
		if s[i] == '\n' {
			n++
		}
	}
	return n
}

// C17: renumber-tests keeps every line of a test file that contains a payload line longer than 64 KiB, or fails.
func VerifC17Yaml() {
	k := vParam("lines")
	long := vParam("long") // position of the long line: a job parameter, or -1 = symbolic (decided by the solver)
	if long < 0 {
		long = vNondetInt("long_at")
	}
	vAssume(0 <= long && long < k)
	vReach("before-processed")
	out, err := NewTestRenumberer().processYaml("920100", []byte(c17Lines(k, long)))
	vAssert(err != nil || countLines(string(out)) == k, "C17 processYaml: lines after a line longer than 64 KiB are silently dropped")
	// none of the lines is a test_id/test_title line and the input ends with exactly one newline: the output is the input
	vAssert(err != nil || string(out) == c17Lines(k, long), "C17 processYaml content: a file with a line longer than 64 KiB is not carried through unchanged")
}
