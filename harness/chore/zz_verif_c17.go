//go:build verif

package chore

func init() {
	vHarnesses["VerifC17Copyright"] = VerifC17Copyright
}

func c17Lines(k int, long int) string {
	// ordinary lines differ from the long-line sentinel in their first byte only (keeps the symbolic part small)
	names := []string{"a<LINE-OF-70000-B>>", "b<LINE-OF-70000-B>>", "c<LINE-OF-70000-B>>", "d<LINE-OF-70000-B>>", "e<LINE-OF-70000-B>>"}
	out := ""
	for i := 0; i < k; i++ {
		if i == long {
			out += vLongLine() + "\n"
		} else {
			out += names[i][:19] + "\n"
		}
	}
	return out
}

func countLines(s string) int {
	n := 0
	for i := 0; i < len(s); i++ {
		if s[i] == '\n' {
			n++
		}
	}
	return n
}

// C17: update-copyright keeps every line of a rules file that contains a line longer than 64 KiB, or fails.
func VerifC17Copyright() {
	k := vParam("lines")
	long := vParam("long") // position of the long line: a job parameter, or -1 = symbolic (decided by the solver)
	if long < 0 {
		long = vNondetInt("long_at")
	}
	vAssume(0 <= long && long < k)
	vReach("before-processed")
	out, err := updateRules("4.1.0", "2026", []byte(c17Lines(k, long)))
	vAssert(err != nil || countLines(string(out)) == k, "C17 updateRules: lines after a line longer than 64 KiB are silently dropped")
}
