//go:build verif

package chore

import (
	"strings"

	"github.com/Masterminds/semver/v3"
)

func init() {
	vHarnesses["VerifC14History"] = VerifC14History
	vHarnesses["VerifC14Untouched"] = VerifC14Untouched
	vHarnesses["VerifC14TwoMarkers"] = VerifC14TwoMarkers
}

func onlyDigits(v string) string {
	out := []byte{}
	for i := 0; i < len(v); i++ {
		if v[i] >= '0' && v[i] <= '9' {
			out = append(out, v[i])
		}
	}
	return string(out)
}

// the five marker kinds as they appear in CRS rule and setup files; v is the version shown
func c14Marker(kind int, v string, year string) string {
	switch kind {
	case 0:
		return "# OWASP CRS ver." + v
	case 1:
		return "    ver:'OWASP_CRS/" + v + "',\\"
	case 2:
		return "SecComponentSignature \"OWASP_CRS/" + v + "\""
	case 3:
		return "    setvar:tx.crs_setup_version=" + onlyDigits(v) + "\""
	}
	return "# Copyright (c) 2021-" + year + " CRS project. All rights reserved."
}

func accepted(v string) bool {
	_, err := semver.NewVersion(v)
	return err == nil && v != ""
}

// C14 (history independence as a one-step lemma): take a marker line that shows ANY version an earlier accepted run
// wrote (v1) and run update-copyright -v v2 -y 2026: the marker shows v2 / 2026. With v1 == v2 this is idempotence;
// by induction over runs it covers histories of any length.
func VerifC14History() {
	kind := vParam("kind")
	v1 := vNondetStrOf("v1", 10, "0123456789.-+vRCrcab")
	v2 := vNondetStrOf("v2", 10, "0123456789.-+vRCrcab")
	vAssume(accepted(v1))
	vAssume(accepted(v2))
	before := c14Marker(kind, v1, "2025")
	out, err := updateRules(v2, "2026", []byte(before+"\n"))
	vReach("one-run")
	vAssert(err == nil, "C14 the run does not fail")
	vAssert(string(out) == c14Marker(kind, v2, "2026")+"\n", "C14 the marker shows the new version/year regardless of what the earlier run wrote")
}

// C14: text that is not a marker is untouched.
func VerifC14Untouched() {
	l := vNondetStrP("line", 20)
	v := vNondetStrOf("v1", 6, "0123456789.-+vRCrcab")
	vAssume(accepted(v))
	vAssume(!strings.Contains(l, "OWASP") && !strings.Contains(l, "Copyright") && !strings.Contains(l, "setvar:tx.crs_setup_version="))
	out, err := updateRules(v, "2026", []byte(l+"\n"))
	vReach("updated")
	vAssert(err == nil && string(out) == l+"\n", "C14 lines without a marker are byte-identical")
}

// C14: a line may carry more than one marker (the SecAction line of crs-setup.conf shows ver:'OWASP_CRS/V' and
// setvar:tx.crs_setup_version=DIGITS next to each other): EVERY marker on the line shows the new version.
func VerifC14TwoMarkers() {
	// the version the earlier run wrote is one of a few spellings (job parameter), the new version is symbolic
	v1 := []string{"4.0.0", "4.1.0-rc1", "v4.2.0", "4.3.0+b5"}[vParam("prev")]
	v2 := vNondetStrOf("v2", 8, "0123456789.-+vRCrcab")
	vAssume(accepted(v2))
	line := func(v string) string {
		if vParam("shape") == 0 {
			return "    ver:'OWASP_CRS/" + v + "',setvar:tx.crs_setup_version=" + onlyDigits(v) + "\""
		}
		return "    setvar:tx.crs_setup_version=" + onlyDigits(v) + ",ver:'OWASP_CRS/" + v + "'\""
	}
	out, err := updateRules(v2, "2026", []byte(line(v1)+"\n"))
	vReach("one-run")
	vAssert(err == nil, "C14 the run does not fail")
	vAssert(string(out) == line(v2)+"\n", "C14 every marker on a line shows the new version")
}
