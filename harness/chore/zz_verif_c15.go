//go:build verif

package chore

import (
	"strings"

	"github.com/coreruleset/crs-toolchain/v2/configuration"
	"github.com/coreruleset/crs-toolchain/v2/context"
)

func init() {
	vHarnesses["VerifC15Copyright"] = VerifC15Copyright
}

// C15: update-copyright with one arbitrary directory entry below the CRS root writes only *.conf / *.example files.
func VerifC15Copyright() {
	dir := vTempDir()
	name := vNondetStrOf("name", 10, "abc.onfexmpl-")
	isDir := vNondetBool("is_dir")
	vAssume(len(name) > 0 && name != "." && name != "..")
	vWriteFile(dir+"/README.md", "untouched\n")
	vWildEntry(dir, name, isDir, "# OWASP CRS ver.4.0.0\n")
	vSnapshot(dir)
	UpdateCopyright(context.NewWithConfiguration(dir, &configuration.Configuration{}), "4.1.0", "2026")
	vReach("walked")
	n := vWriteN()
	for i := 0; i < n; i++ {
		if vWriteGuard(i) {
			vAssert(vWritePath(i) == dir+"/"+name && !isDir && (strings.HasSuffix(name, ".conf") || strings.HasSuffix(name, ".example")),
				"C15 update-copyright writes only *.conf and *.example files below the root")
		}
	}
}
