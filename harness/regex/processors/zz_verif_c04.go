//go:build verif

package processors

func init() {
	vHarnesses["VerifC04Word"] = VerifC04Word
}

// refWord: the documented expansion of one cmdline word, character by character:
// a leading ' passes the rest through; an unescaped trailing @ / ~ selects the suffix / no-space-suffix pattern;
// \@ and \~ keep the character; . -> \. ; - -> \- ; space -> \s+ ; the evasion pattern E between adjacent characters
// (and before the suffix).
func refWord(w string, e string, s string, x string) string {
	if len(w) > 0 && w[0] == '\'' {
		return w[1:]
	}
	suffix := ""
	body := w
	if len(w) >= 2 {
		n := 0
		for i := len(w) - 2; i >= 0 && w[i] == '\\'; i-- {
			n++
		}
		last := w[len(w)-1]
		if n%2 == 1 {
			body = w[:len(w)-2] + string(last)
		} else if last == '@' {
			suffix = s
			body = w[:len(w)-1]
		} else if last == '~' {
			suffix = x
			body = w[:len(w)-1]
		}
	}
	out := ""
	for i := 0; i < len(body); i++ {
		if i > 0 {
			out += e
		}
		switch body[i] {
		case '.':
			out += "\\."
		case '-':
			out += "\\-"
		case ' ':
			out += "\\s+"
		default:
			out += string(body[i])
		}
	}
	if len(suffix) > 0 {
		out += e + suffix
	}
	return out
}

// C04 (per word): regexpStr equals the documented expansion for every word over the command alphabet.
func VerifC04Word() {
	w := vNondetStrOf("word", 10, "ab1.-_ @~\\'")
	t := CmdLineUnix
	if vParam("shell") == 2 {
		t = CmdLineWindows
	}
	c := &CmdLine{proc: NewProcessor(nil), cmdType: t, evasionPatterns: map[EvasionPatterns]string{evasionPattern: "<E>", suffixPattern: "<S>", suffixExpandedCommand: "<X>"}}
	got := c.regexpStr(w)
	vReach("expanded")
	vAssert(got == refWord(w, "<E>", "<S>", "<X>"), "C04 every character of the word, the evasion pattern between adjacent characters, the configured suffix after @ / ~")
	err := c.ProcessLine(w)
	vAssert(err == nil, "C04 a cmdline word is never rejected")
}
