//go:build verif

package operators

import (
	"strings"

	"github.com/coreruleset/crs-toolchain/v2/regex/parser"
)

func init() {
	for n, f := range map[string]func(){"VerifC02HexEscapes": VerifC02HexEscapes, "VerifC02Quotes": VerifC02Quotes, "VerifC02Backslashes": VerifC02Backslashes,
		"VerifC02VerticalTab": VerifC02VerticalTab, "VerifC02FlagGroups": VerifC02FlagGroups, "VerifC02Outermost": VerifC02Outermost, "VerifC02FlagsPrefix": VerifC02FlagsPrefix, "VerifC02FlagGroupsShaped": VerifC02FlagGroupsShaped} {
		vHarnesses[n] = f
	}
}

func isFlagLetter(c byte) bool {
	return c == '-' || c == 'm' || c == 'i' || c == 's' || c == 'U'
}

// pgPlus: a deliberately weak superset of what regexp/syntax prints (and rassemble returns):
// every backslash starts an escape (never last), unescaped parentheses balance, and an unescaped
// "(?" is a well-formed flag / non-capturing group opener. Single pass, constant state.
func pgPlus(t string) bool {
	depth := 0
	esc := false
	st := 0 // 0 text, 1 just after an unescaped '(', 2 inside "(?flags", 3 after "(?flags)", 4 at the start of a group body or alternative
	nflag := 0
	for i := 0; i < len(t); i++ {
		c := t[i]
		if esc {
			esc = false
			st = 0
			continue
		}
		if st == 4 || st == 5 {
			// a group body or an alternative never starts with a quantifier (the printer escapes literal ?*+),
			// and the body of a flag group is never empty (an empty expression is printed as `(?:)`)
			if c == '?' || c == '*' || c == '+' || (st == 5 && c == ')') {
				return false
			}
			st = 0
		}
		if st == 2 {
			if isFlagLetter(c) {
				nflag++
				continue
			}
			if c == ':' {
				st = 4
				if nflag > 0 {
					st = 5
				}
				continue
			}
			if c == ')' && nflag > 0 {
				depth--
				st = 3
				continue
			}
			return false
		}
		if st == 3 {
			// a flags-only group "(?i)" is not an operand: it cannot be quantified
			st = 0
			if c == '?' || c == '*' || c == '+' || c == '{' {
				return false
			}
		}
		if st == 1 {
			st = 0
			if c == '?' {
				st = 2
				nflag = 0
				continue
			}
			if c == '*' || c == '+' {
				return false
			}
		}
		if c == '\\' {
			esc = true
			continue
		}
		if c == '(' {
			depth++
			st = 1
		}
		if c == ')' {
			depth--
			if depth < 0 {
				return false
			}
		}
		if c == '|' {
			st = 4
		}
	}
	return depth == 0 && !esc && st != 2 && st != 5
}

// quotesEscaped: every double quote is preceded by an odd number of backslashes.
func quotesEscaped(o string) bool {
	odd := false
	for i := 0; i < len(o); i++ {
		if o[i] == '"' && !odd {
			return false
		}
		if o[i] == '\\' {
			odd = !odd
		} else {
			odd = false
		}
	}
	return true
}

// noPlainBackslash: reading escapes left to right, no escape token is `\\`.
func noPlainBackslash(o string) bool {
	esc := false
	for i := 0; i < len(o); i++ {
		if esc {
			if o[i] == '\\' {
				return false
			}
			esc = false
			continue
		}
		if o[i] == '\\' {
			esc = true
		}
	}
	return true
}

// noInlineFlagGroup: no unescaped "(?" followed by at least one flag letter and then ")" or ":" remains.
func noInlineFlagGroup(o string) bool {
	odd := false
	st := 0
	nflag := 0
	for i := 0; i < len(o); i++ {
		c := o[i]
		handled := false
		if st == 2 {
			if isFlagLetter(c) {
				nflag++
				handled = true
			} else {
				if nflag > 0 && (c == ')' || c == ':') {
					return false
				}
				st = 0
			}
		} else if st == 1 {
			st = 0
			if c == '?' {
				st = 2
				nflag = 0
				handled = true
			}
		}
		if !handled && c == '(' && !odd {
			st = 1
		}
		if c == '\\' {
			odd = !odd
		} else {
			odd = false
		}
	}
	return true
}

func printableOneLine(o string) bool {
	for i := 0; i < len(o); i++ {
		if o[i] < 0x20 || o[i] > 0x7e {
			return false
		}
	}
	return true
}

// c02Alphabet: every byte comparison in the clean-up passes, in IsEscaped/findGroupBodyEnd and in the predicates of this
// file is against one of: backslash, parentheses, `?`, `:`, `|`, the flag letters [-misU], the quote, quantifier starts
// `* + {` and the printable range. Bytes outside that set are interchangeable, so the deeper jobs draw the text from
// these representatives (`a`, `x`, `5` stand for every other printable byte; `i`, `s`, `-` for the flag letters; `t n f r` and the blank spell the Perl space sequence).
const c02Alphabet = "()?:|\\\"is-*{ax5tnfr "

// c02Text is the symbolic text of a lemma: all printable ASCII (job parameter alpha = 0) or the representative alphabet.
func c02Text(max int) string {
	if vParam("alpha") == 1 {
		return vNondetStrOf("t", max, c02Alphabet)
	}
	return vNondetStrP("t", max)
}

func newOp() *Operator {
	return &Operator{lines: []string{}, groupReplacementStringBuilder: &strings.Builder{}}
}

// Lemma 1: useHexEscapes turns ASCII text (control bytes included) into printable ASCII and keeps PG+.
func VerifC02HexEscapes() {
	t := vNondetStrA("t", 14)
	vAssume(pgPlus(t))
	out := newOp().useHexEscapes(t)
	vReach("after")
	vAssert(printableOneLine(out), "C02 useHexEscapes: output is printable ASCII on one line")
	vAssert(pgPlus(out), "C02 useHexEscapes: output keeps the printer shape (escapes, balanced groups)")
}

// Lemma 2: escapeDoublequotes on printable PG+ text escapes every quote and keeps the shape.
func VerifC02Quotes() {
	t := c02Text(14)
	vAssume(pgPlus(t))
	out := newOp().escapeDoublequotes(t)
	vReach("after")
	vAssert(quotesEscaped(out), "C02 every double quote is backslash-escaped")
	vAssert(printableOneLine(out) && pgPlus(out), "C02 escapeDoublequotes: output stays printable and printer-shaped")
}

// Lemma 3: useHexBackslashes removes every `\\` token and keeps quotes escaped.
func VerifC02Backslashes() {
	t := c02Text(14)
	vAssume(pgPlus(t))
	vAssume(quotesEscaped(t))
	out := newOp().useHexBackslashes(t)
	vReach("after")
	vAssert(noPlainBackslash(out), "C02 a literal backslash is written only as \\x5c")
	vAssert(quotesEscaped(out), "C02 quotes stay escaped after the backslash rewrite")
	vAssert(printableOneLine(out) && pgPlus(out), "C02 useHexBackslashes: output stays printable and printer-shaped")
}

// Lemma 4: includeVerticalTabInSpaceClass leaves no Perl space sequence without VT and keeps the invariants.
func VerifC02VerticalTab() {
	t := c02Text(14)
	vAssume(pgPlus(t))
	vAssume(quotesEscaped(t))
	vAssume(noPlainBackslash(t))
	out := newOp().includeVerticalTabInSpaceClass(t)
	vReach("after")
	vAssert(!strings.Contains(out, "\\t\\n\\f\\r "), "C02 the white-space class is written with the vertical tab")
	vAssert(quotesEscaped(out) && noPlainBackslash(out) && printableOneLine(out) && pgPlus(out), "C02 includeVerticalTabInSpaceClass keeps the output invariants")
}

// Lemma 5 (C02 + C19): dontUseFlagsForMetaCharacters never faults on printer-shaped text, leaves no inline flag
// group and keeps every output invariant that held before (weakest precondition: PG+ only, so the lemma does not
// depend on the order of the earlier passes).
func VerifC02FlagGroups() {
	t := c02Text(14)
	vAssume(pgPlus(t))
	mid := newOp().dontUseFlagsForMetaCharacters(t)
	vReach("after-flags")
	vAssert(noInlineFlagGroup(mid), "C02 no inline flag group survives")
	vAssert(printableOneLine(mid) && pgPlus(mid), "C02 dontUseFlagsForMetaCharacters keeps the text printable and printer-shaped")
	vAssert(!quotesEscaped(t) || quotesEscaped(mid), "C02 dontUseFlagsForMetaCharacters keeps quotes escaped")
	vAssert(!noPlainBackslash(t) || noPlainBackslash(mid), "C02 dontUseFlagsForMetaCharacters introduces no plain backslash")
}

// Lemma 5, deeper: text with a given skeleton - free text, an opener that is or only looks like a flag group, free text,
// a closing parenthesis, free text - so that complete groups (which need 6+ bytes) are covered beyond the length bound
// of the unconstrained lemma. Openers: (?i:  (?-s:  (?i)  \(?i:  \(?i)  (?:
func VerifC02FlagGroupsShaped() {
	openers := []string{"(?i:", "(?-s:", "(?i)", "\\(?i:", "\\(?i)", "(?:"}
	op := openers[vParam("opener")]
	p := vNondetStrOf("p", 2, c02Alphabet)
	b := vNondetStrOf("b", 3, c02Alphabet)
	q := vNondetStrOf("q", 2, c02Alphabet)
	t := p + op + b
	if o2 := vParam("opener2"); o2 >= 0 {
		// a second opener (two real groups, two look-alikes, or one of each)
		t += openers[o2] + vNondetStrOf("c", 2, c02Alphabet)
	}
	if vParam("close") == 1 {
		t += ")"
	}
	if vParam("close") == 2 {
		t += "))"
	}
	t += q
	vAssume(pgPlus(t))
	mid := newOp().dontUseFlagsForMetaCharacters(t)
	vReach("after-flags")
	vAssert(noInlineFlagGroup(mid), "C02 no inline flag group survives")
	vAssert(printableOneLine(mid) && pgPlus(mid), "C02 dontUseFlagsForMetaCharacters keeps the text printable and printer-shaped")
	vAssert(!quotesEscaped(t) || quotesEscaped(mid), "C02 dontUseFlagsForMetaCharacters keeps quotes escaped")
	vAssert(!noPlainBackslash(t) || noPlainBackslash(mid), "C02 dontUseFlagsForMetaCharacters introduces no plain backslash")
}

func VerifC02Outermost() {
	t := c02Text(14)
	vAssume(pgPlus(t))
	out := newOp().removeOutermostNonCapturingGroup(t)
	vReach("after")
	vAssert(printableOneLine(out) && pgPlus(out), "C02 removeOutermostNonCapturingGroup keeps the text printable and printer-shaped")
	vAssert(!quotesEscaped(t) || quotesEscaped(out), "C02 removeOutermostNonCapturingGroup keeps quotes escaped")
	vAssert(!noPlainBackslash(t) || noPlainBackslash(out), "C02 removeOutermostNonCapturingGroup introduces no plain backslash")
}

// Lemma 6: the flags prefix built by complete() (map iteration order symbolic) is (?i), (?s) or (?is).
func VerifC02FlagsPrefix() {
	fi := vNondetBool("flag_i")
	fs := vNondetBool("flag_s")
	vStubJoin("a")
	p := &parser.Parser{Flags: map[rune]bool{}, Prefixes: []string{"a"}, Suffixes: []string{}}
	if fs {
		p.Flags['s'] = true
	}
	if fi {
		p.Flags['i'] = true
	}
	out := newOp().complete(p)
	vReach("after-complete")
	want := "a"
	if fi && fs {
		want = "(?is)a"
	} else if fi {
		want = "(?i)a"
	} else if fs {
		want = "(?s)a"
	}
	vAssert(out == want, "C02 flags appear as one leading group with sorted letters")
}
