//go:build verif

package operators

import (
	"strconv"

	"github.com/coreruleset/crs-toolchain/v2/configuration"
	"github.com/coreruleset/crs-toolchain/v2/context"
	"github.com/coreruleset/crs-toolchain/v2/regex/processors"
)

func init() {
	vHarnesses["VerifC08Havoc"] = VerifC08Havoc
}

// one line of an assembly file; its kind is a job parameter (the sequence of line kinds is enumerated), the
// leftover state of the package-level variables is what the solver quantifies over
func c08Line(i int) string {
	switch vParam("k" + strconv.Itoa(i)) {
	case 0:
		return "##!> assemble    "
	case 1:
		return "##!> cmdline unix"
	case 2:
		return "##!<             "
	case 3:
		return "entry-a          "
	case 4:
		return "##!=>            "
	case 5:
		return "##!=< n          "
	}
	return "##!=> n          "
}

func c08Ctx() *processors.Context {
	return processors.NewContext(context.NewWithConfiguration("/crs", &configuration.Configuration{}))
}

// C08 (A): the package-level assembler state (`processorStack`, `processor`) left behind by an earlier file never
// influences the next Run, and a successful Run leaves the stack empty again (inductive invariant).
// Pre-state: stack empty, `processor` arbitrary (nil, a used assemble processor, a used cmdline processor).
func VerifC08Havoc() {
	n := vParam("lines")
	src := ""
	for i := 0; i < n; i++ {
		src += c08Line(i) + "\n"
	}
	vStubJoin("R")
	switch vNondetInt("leftover") {
	case 1:
		p := processors.NewAssemble(c08Ctx())
		_ = p.ProcessLine("stale")
		processor = p
	case 2:
		p := processors.NewCmdLine(c08Ctx(), processors.CmdLineWindows)
		_ = p.ProcessLine("stale")
		processor = p
	default:
		processor = nil
	}
	processorStack = NewProcessorStack()
	out1, err1 := NewAssembler(c08Ctx()).Run(src)
	if err1 == nil {
		vAssert(len(processorStack.processors) == 0, "C08 a successful Run leaves the processor stack empty (invariant is inductive)")
	}
	processor = nil
	processorStack = NewProcessorStack()
	out2, err2 := NewAssembler(c08Ctx()).Run(src)
	vReach("ran-twice")
	vAssert((err1 == nil) == (err2 == nil), "C08 success or failure of a file does not depend on what was processed before it")
	vAssert(out1 == out2, "C08 the regex of a file does not depend on what was processed before it")
}
