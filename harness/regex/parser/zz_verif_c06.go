//go:build verif

package parser

import (
	"bytes"
	"strings"

	"github.com/coreruleset/crs-toolchain/v2/context"
	"github.com/coreruleset/crs-toolchain/v2/regex/processors"
)

func init() {
	vHarnesses["VerifC06ExceptOrder"] = VerifC06ExceptOrder
	vHarnesses["VerifC06SuffixPairs"] = VerifC06SuffixPairs
}

// word lists for include-except: duplicates, comments, blank lines; the expected text keeps the surviving entries in
// the order of their (last) occurrence in F
func c06Lists(shape int) (inc string, exc string, want string) {
	switch shape {
	case 0: // a duplicate before a new entry
		return "wget\nbash\nwget\ncurl\nperl\n", "bash\n", "wget\ncurl\nperl\n"
	case 1: // duplicates of an excluded entry
		return "a\nb\na\nc\nb\nd\n", "a\n", "c\nb\nd\n"
	case 2: // nothing excluded, comments and blank lines in F
		return "##! list\nx\n\ny\nz\n", "q\n", "x\ny\nz\n"
	case 3: // everything excluded
		return "x\ny\n", "y\nx\nz\n", ""
	}
	// two runs of duplicates
	return "a\na\nb\nb\nc\n", "b\n", "a\nc\n"
}

// C06/C03: include-except contributes exactly the surviving entries of F in F's order, for every iteration order of the
// line map (the lines are copied out of a Go map and re-sorted by their recorded position).
func VerifC06ExceptOrder() {
	inc, exc, want := c06Lists(vParam("shape"))
	root := vTempDir()
	vWriteFile(root+"/regex-assembly/include/words.ra", inc)
	vWriteFile(root+"/regex-assembly/exclude/x.ra", exc)
	ctx := processors.NewContext(context.NewWithConfiguration(root, nil))
	p := NewParser(ctx, strings.NewReader(""))
	out, err := buildIncludeExceptString(p, ParsedLine{includeFileName: "words", excludeFileNames: []string{"x"}})
	vReach("built")
	vAssert(err == nil, "C06 include-except does not fail on a well-formed list")
	vAssert(out == want, "C06 include-except keeps exactly the surviving entries in F's relative order, under every map iteration order")
}

// C06/C03: a list of two `-- old new` pairs gives the same text under every iteration order of the pair map
// (two independent runs = two independent orders).
func VerifC06SuffixPairs() {
	e := vNondetStrOf("entry", 5, "ab@~")
	o1 := vNondetStrOf("old1", 2, "ab@~")
	n1 := vNondetStrOf("new1", 2, "ab@~")
	o2 := vNondetStrOf("old2", 2, "ab@~")
	n2 := vNondetStrOf("new2", 2, "ab@~")
	vAssume(len(o1) > 0 && len(o2) > 0 && len(n1) > 0 && len(n2) > 0 && o1 != o2)
	vAssume(len(e) > 0)
	a, errA := replaceSuffixes(bytesBuf(e+"\n"), map[string]string{o1: n1, o2: n2})
	b, errB := replaceSuffixes(bytesBuf(e+"\n"), map[string]string{o1: n1, o2: n2})
	vReach("replaced-twice")
	vAssert(errA == nil && errB == nil, "C06 suffix replacement does not fail")
	vAssert(a == b, "C03/C06 a list of suffix-replacement pairs gives the same entries under every map iteration order")
	// exactly one matching pair is applied; an entry that ends in no key is untouched
	m1, m2 := strings.HasSuffix(e, o1), strings.HasSuffix(e, o2)
	w1 := e[:len(e)-min(len(o1), len(e))] + n1
	w2 := e[:len(e)-min(len(o2), len(e))] + n2
	ok := (!m1 && !m2 && a == e+"\n") || (m1 && a == w1+"\n") || (m2 && a == w2+"\n")
	vAssert(ok, "C06 an entry is rewritten by exactly one pair whose key it ends in, and left alone when it ends in none")
}

func bytesBuf(s string) *bytes.Buffer { return bytes.NewBufferString(s) }
