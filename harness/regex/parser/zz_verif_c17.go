//go:build verif

package parser

import (
	"strings"
)

func init() {
	vHarnesses["VerifC17Parse"] = VerifC17Parse
}

func c17Lines(k int, long int) string {
	// ordinary lines differ from the long-line sentinel in their first byte only (keeps the symbolic part small)
	names := []string{"a<LINE-OF-70000-B>>", "b<LINE-OF-70000-B>>", "c<LINE-OF-70000-B>>", "d<LINE-OF-70000-B>>", "e<LINE-OF-70000-B>>"}
	out := ""
	for i := 0; i < k; i++ {
		if i == long {
			out += vLongLine() + "\n"
		} else {
			out += names[i][:19] + "\n"
		}
	}
	return out
}

func countLines(s string) int {
	n := 0
	for i := 0; i < len(s); i++ {
		if s[i] == '\n' {
			n++
		}
	}
	return n
}

// C17: the parser carries every entry of its input to its output, or fails loudly, when one line (at any
// position) is longer than 64 KiB.
func VerifC17Parse() {
	k := vParam("lines")
	long := vParam("long") // position of the long line: a job parameter, or -1 = symbolic (decided by the solver)
	if long < 0 {
		long = vNondetInt("long_at")
	}
	vAssume(0 <= long && long < k)
	p := NewParser(nil, strings.NewReader(c17Lines(k, long)))
	vReach("before-parsed")
	out, _ := p.Parse(false)
	vAssert(countLines(out.String()) == k, "C17 Parser.Parse: lines after a line longer than 64 KiB are silently dropped")
}
