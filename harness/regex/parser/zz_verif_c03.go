//go:build verif

package parser

import (
	"bytes"
	"strings"
)

func init() {
	vHarnesses["VerifC03ParseLine"] = VerifC03ParseLine
	vHarnesses["VerifC07Expand"] = VerifC07Expand
	vHarnesses["VerifC06ReplaceSuffixOne"] = VerifC06ReplaceSuffixOne
	vHarnesses["VerifC07ExpandValue"] = VerifC07ExpandValue
	vHarnesses["VerifC19ExpandTerminates"] = VerifC19ExpandTerminates
}

// C03: the classification of a line does not depend on the order in which the directive patterns are tried
// (two parsers = two independent map iteration orders).
func VerifC03ParseLine() {
	l := vNondetStrP("line", 24)
	a := NewParser(nil, strings.NewReader("")).parseLine(l)
	b := NewParser(nil, strings.NewReader("")).parseLine(l)
	vReach("parsed-twice")
	vAssert(a.parsedType == b.parsedType, "C03 a line is the same kind of directive under every map iteration order")
	vAssert(a.includeFileName == b.includeFileName && a.prefix == b.prefix && a.suffix == b.suffix && a.flags == b.flags,
		"C03 the directive's payload is the same under every map iteration order")
}

// the definition shapes of C07: acyclic reference graphs on three names, references inside values,
// quantifier braces next to references, an undefined name.
func c07Defs(shape int) (map[string]string, string, string) {
	switch shape {
	case 0: // chain a -> b -> c
		return map[string]string{"a": "x{{b}}y", "b": "({{c}}{2,4})", "c": "[0-9]"}, "{{a}}|{{c}}+", "x([0-9]{2,4})y|[0-9]+"
	case 1: // diamond
		return map[string]string{"top": "{{l}}{{r}}", "l": "<{{z}}>", "r": "[{{z}}]", "z": "q"}, "^{{top}}$", "^<q>[q]$"
	case 2: // independent + undefined reference stays literal
		return map[string]string{"one": "1", "two": "2"}, "{{one}}{{two}}{{three}}{{one}}", "12{{three}}1"
	case 3: // names that sort against the reference direction
		return map[string]string{"digit": "[0-9]", "wrapper": "x{{zdigits}}y", "zdigits": "({{digit}}{2})"}, "{{wrapper}}", "x([0-9]{2})y"
	case 5: // minimal chain, names against the sort order
		return map[string]string{"b": "{{c}}", "c": "{{a}}", "a": "z"}, "{{b}}", "z"
	case 6:
		return map[string]string{"a": "{{b}}", "b": "{{c}}", "c": "z"}, "{{a}}", "z"
	case 7:
		return map[string]string{"a": "{{c}}", "c": "{{b}}", "b": "z"}, "{{a}}", "z"
	}
	// braces around references
	return map[string]string{"n": "3", "m": "5"}, "a{{{n}},{{m}}}b{{{n}}}", "a{3,5}b{3}"
}

// C07/C03: definition expansion gives the hand-expanded text under every iteration order of the three map loops.
func VerifC07Expand() {
	shape := vParam("shape")
	defs, src, want := c07Defs(shape)
	out := expandDefinitions(bytes.NewBufferString(src), defs)
	vReach("expanded")
	vAssert(out.String() == want, "C07 every defined {{name}} is replaced by its fully expanded value, for every map iteration order")
}

// C06: a single `-- old new` pair rewrites only entries ending in old, leaves comments, directives and
// blank lines untouched, and `""` deletes the ending.
func VerifC06ReplaceSuffixOne() {
	e := vNondetStrP("entry", 6)
	old := vNondetStrP("old", 2)
	nw := vNondetStrP("new", 2)
	vAssume(len(old) > 0)
	vAssume(!strings.Contains(old, " ") && !strings.Contains(nw, " ") && len(nw) > 0)
	out, err := replaceSuffixes(bytes.NewBufferString(e+"\n"), map[string]string{old: nw})
	vReach("replaced")
	vAssert(err == nil, "C06 suffix replacement does not fail")
	want := e
	isEntry := !strings.HasPrefix(e, "##!") && len(strings.TrimSpace(e)) > 0
	if isEntry && strings.HasSuffix(e, old) {
		want = e[:len(e)-len(old)]
		if nw != "\"\"" {
			want += nw
		}
	}
	vAssert(out == want+"\n", "C06 only entries ending in old are rewritten; comments, directives and blank lines are untouched")
}

// C07: the VALUE of a definition is arbitrary text (regex metacharacters, `$`, backslashes, single braces): it is pasted
// exactly as typed, directly and through a second definition, and an undefined reference stays literal. The value holds
// no `{{` (the property excludes references that only come into existence through a substitution).
func VerifC07ExpandValue() {
	val := vNondetStrP("val", 6)
	vAssume(len(val) > 0 && !strings.Contains(val, "{{") && !strings.Contains(val, " "))
	shape := vParam("shape")
	var defs map[string]string
	var src, want string
	switch shape {
	case 0: // direct reference, twice, next to an undefined name
		defs = map[string]string{"v": val}
		src, want = "a{{v}}b{{w}}{{v}}", "a"+val+"b{{w}}"+val
	case 1: // through a second definition
		defs = map[string]string{"v": val, "u": "x{{v}}y"}
		src, want = "{{u}}|{{v}}", "x"+val+"y|"+val
	default: // value next to quantifier braces
		defs = map[string]string{"v": val, "n": "3"}
		src, want = "{{v}}{{{n}}}", val+"{3}"
	}
	out := expandDefinitions(bytes.NewBufferString(src), defs)
	vReach("expanded")
	vAssert(out.String() == want, "C07 a definition's value is pasted exactly as typed (pure textual substitution)")
}

// VerifParseKind exposes the parser's classification of one (already left-trimmed) line to the harnesses of other
// packages: 0 regular, 1 empty, 2 comment, 3 definition, 4 include, 5 include-except, 6 flags, 7 prefix, 8 suffix.
// Map iteration order as in parseLine itself (symbolic unless the job fixes it).
func VerifParseKind(l string) int {
	switch NewParser(nil, strings.NewReader("")).parseLine(l).parsedType {
	case regular:
		return 0
	case empty:
		return 1
	case comment:
		return 2
	case definition:
		return 3
	case include:
		return 4
	case includeExcept:
		return 5
	case flags:
		return 6
	case prefix:
		return 7
	case suffix:
		return 8
	}
	return -1
}

// VerifParseValue exposes what the compiler takes from a flags, prefix or suffix line (the text that ends up in the
// generated regex); "" for every other kind of line.
func VerifParseValue(l string) string {
	pl := NewParser(nil, strings.NewReader("")).parseLine(l)
	switch pl.parsedType {
	case flags:
		return pl.flags
	case prefix:
		return pl.prefix
	case suffix:
		return pl.suffix
	}
	return ""
}

// C19: definition expansion terminates promptly whatever the definitions reference - a definition that mentions itself,
// two definitions that mention each other, an ordinary chain. (Cyclic references are not expanded meaningfully; the
// point is that generate returns.)
func VerifC19ExpandTerminates() {
	var defs map[string]string
	switch vParam("shape") {
	case 0:
		defs = map[string]string{"a": "x{{a}}"}
	case 1:
		defs = map[string]string{"a": "{{b}}", "b": "{{a}}"}
	case 2:
		defs = map[string]string{"a": "{{a}}"}
	default:
		defs = map[string]string{"a": "{{b}}x", "b": "y"}
	}
	out := expandDefinitions(bytes.NewBufferString("{{a}}|z"), defs)
	vReach("expanded")
	vAssert(out != nil, "C19 definition expansion returns")
}
