//go:build verif

package cmd

import (
	"path"

	"github.com/coreruleset/crs-toolchain/v2/configuration"
	"github.com/coreruleset/crs-toolchain/v2/context"
	"github.com/coreruleset/crs-toolchain/v2/regex/processors"
)

func init() {
	vHarnesses["VerifC15Format"] = VerifC15Format
	vHarnesses["VerifC15UpdateCompare"] = VerifC15UpdateCompare
}

// C15: format --all with one arbitrary entry below regex-assembly: --check never writes; otherwise only that
// entry is written and only if it is a regular file with extension .ra.
func VerifC15Format() {
	dir := vTempDir()
	root := dir + "/regex-assembly"
	name := vNondetStrOf("name", 9, "0123456.ra-bk")
	isDir := vNondetBool("is_dir")
	check := vNondetBool("check")
	vAssume(len(name) > 0 && name != "." && name != "..")
	vWriteFile(root+"/notes.txt", "untouched\n")
	vWildEntry(root, name, isDir, "foo\nbar\n")
	vSnapshot(dir)
	ctxt := processors.NewContext(context.NewWithConfiguration(dir, &configuration.Configuration{}))
	_ = processAll(ctxt, check)
	vReach("walked")
	n := vWriteN()
	for i := 0; i < n; i++ {
		if vWriteGuard(i) {
			vAssert(!check, "C15 format --check never writes")
			vAssert(vWritePath(i) == root+"/"+name && !isDir && path.Ext(name) == ".ra", "C15 format writes only .ra files below regex-assembly")
		}
	}
}

// C15: update --all writes only the rules file of the addressed rule; compare (single and --all, text and
// github output) writes nothing. Tree with decoys: a backup of the assembly file, an include file, a note,
// a second file in rules/ that does not match the rule's prefix.
func VerifC15UpdateCompare() {
	dir := vTempDir()
	ra := dir + "/regex-assembly"
	rules := dir + "/rules/REQUEST-932-APPLICATION-ATTACK-RCE.conf"
	vWriteFile(ra+"/932100.ra", "foo\nbar\n")
	vWriteFile(ra+"/932100.ra.bak", "old\n")
	vWriteFile(ra+"/include/words.ra", "ls\ncat\n")
	vWriteFile(ra+"/notes.txt", "n\n")
	vWriteFile(rules, "SecRule ARGS \"@rx old\" \\\n    \"id:932100,\\\n    deny\"\n")
	vWriteFile(dir+"/rules/REQUEST-941-APPLICATION-ATTACK-XSS.conf", "SecRule ARGS \"@rx keep\" \\\n    \"id:941100,\\\n    deny\"\n")
	vStubJoin("foo|bar")
	rootValues.workingDirectory = workingDirectory(dir)
	rootValues.configurationFileName = "toolchain.yaml"
	if vNondetBool("github") {
		rootValues.output = gitHub
	} else {
		rootValues.output = text
	}
	ruleValues.id = "932100"
	ruleValues.fileName = "932100.ra"
	ruleValues.chainOffset = 0
	ruleValues.useStdin = false
	ctxt := processors.NewContext(context.NewWithConfiguration(dir, &configuration.Configuration{}))
	all := vNondetBool("all")
	vSnapshot(dir)
	if vNondetBool("compare") {
		_ = performCompare(all, ctxt)
		vReach("compared")
		n := vWriteN()
		for i := 0; i < n; i++ {
			vAssert(!vWriteGuard(i), "C15 compare never writes")
		}
	} else {
		performUpdate(all, ctxt)
		vReach("updated")
		n := vWriteN()
		for i := 0; i < n; i++ {
			if vWriteGuard(i) {
				vAssert(vWritePath(i) == rules, "C15 update writes only the rules file of the addressed rule")
			}
		}
	}
}
