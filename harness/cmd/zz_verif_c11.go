//go:build verif

package cmd

import "strings"

func init() {
	vHarnesses["VerifC11Update"] = VerifC11Update
	vHarnesses["VerifC12ReadBack"] = VerifC12ReadBack
	vHarnesses["VerifC12SecondUpdate"] = VerifC12SecondUpdate
	vHarnesses["VerifC12CompareAll"] = VerifC12CompareAll
}

// operandOK states what C02 guarantees about a generated regex: printable ASCII (by construction of
// vNondetStrP), every double quote escaped by exactly one backslash, no "\\" pair (a literal backslash is
// written \x5c), and no trailing lone backslash.
func operandOK(s string) bool {
	for i := 0; i < len(s); i++ {
		if s[i] == '\\' {
			if i+1 >= len(s) || s[i+1] == '\\' {
				return false
			}
			if i > 0 && s[i-1] == '\\' {
				return false
			}
		}
		if s[i] == '"' && (i == 0 || s[i-1] != '\\') {
			return false
		}
	}
	return true
}

// Rules file in CRS layout whose target line is  PREFIX "[!]@rx OPERAND" \ TAIL ; one other rule and a comment first.
func c11File(operand string, neg bool, tail string, other string) (before, head, rest string) {
	op := "\"@rx "
	if neg {
		op = "\"!@rx "
	}
	head = "SecRule REQUEST_URI|ARGS " + op
	// an earlier, different rule whose SecRule line may be byte-identical to the target line
	before = "# 932101 first\n" + head + other + "\" \\" + tail + "\n    \"id:932101,\\\n    deny\"\n\n"
	rest = "\" \\" + tail + "\n    \"id:932100,\\\n    phase:2\""
	return
}

// C11: update changes exactly the operand bytes of the addressed rule.
func VerifC11Update() {
	old := vNondetStrP("old", 8)
	nw := vNondetStrP("new", 12)
	neg := vParam("neg") != 0
	tail := vNondetStrOf("tail", 2, " \t\r")
	vAssume(operandOK(old))
	vAssume(operandOK(nw))
	other := vNondetStrP("other", 8)
	vAssume(operandOK(other))
	before, head, rest := c11File(old, neg, tail, other)
	path := vTempDir() + "/rules/REQUEST-932-X.conf"
	vWriteFile(path, before+head+old+rest)
	updateRegex(path, "932100", 0, nw)
	after := vReadFile(path)
	vReach("after-update")
	vAssert(after == before+head+nw+rest, "C11 update changes exactly the operand bytes of the addressed rule")
}

// C12 (first half): what compare reads from a file whose operand is R is exactly R.
func VerifC12ReadBack() {
	r := vNondetStrP("new", 12)
	neg := vParam("neg") != 0
	vAssume(operandOK(r))
	before, head, rest := c11File(r, neg, "", "keep")
	path := vTempDir() + "/rules/REQUEST-932-X.conf"
	vWriteFile(path, before+head+r+rest)
	got := readCurrentRegex(path, "932100", 0)
	vReach("after-read")
	vAssert(got == r, "C12 compare reads back exactly the operand stored in the rules file")
}

// C12 (second half): updating a rule with the operand it already has leaves the file byte-identical.
func VerifC12SecondUpdate() {
	r := vNondetStrP("new", 12)
	neg := vParam("neg") != 0
	vAssume(operandOK(r))
	before, head, rest := c11File(r, neg, "", "keep")
	path := vTempDir() + "/rules/REQUEST-932-X.conf"
	vWriteFile(path, before+head+r+rest)
	updateRegex(path, "932100", 0, r)
	vReach("after-update")
	vAssert(vReadFile(path) == before+head+r+rest, "C12 a second update with the same regex is a no-op")
}

// C12: compare --all (GitHub mode) fails exactly when the stored operand of SOME rule differs from its generated regex,
// wherever the stale rule sits in the walk; in text mode every rule is reported and the stale one is reported as changed.
func VerifC12CompareAll() {
	dir := vTempDir()
	ctxt := c08Context(dir)
	stale := vParam("stale") // index of the stale rule (3: none)
	ids := []string{"932100", "932101", "932102"}
	gen := []string{"ra", "rb", "rc"}
	rules := ""
	for i := 0; i < 3; i++ {
		op := gen[i]
		if i == stale {
			op = "old"
		}
		rules += "SecRule ARGS \"@rx " + op + "\" \\\n    \"id:" + ids[i] + ",\\\n    deny\"\n\n"
		vWriteFile(dir+"/regex-assembly/"+ids[i]+".ra", gen[i]+"\n")
	}
	vWriteFile(dir+"/rules/REQUEST-932-APPLICATION-ATTACK-RCE.conf", rules)
	github := vParam("github") != 0
	if github {
		rootValues.output = gitHub
	}
	var err error
	out := vCaptureStdout(func() { err = performCompare(true, ctxt) })
	vReach("compared")
	if github {
		vAssert((err != nil) == (stale < 3), "C12 compare --all -o github fails exactly when some stored operand differs from its generated regex")
	} else {
		for i := 0; i < 3; i++ {
			want := "Regex of " + ids[i] + " has not changed"
			if i == stale {
				want = "Regex of " + ids[i] + " has changed!"
			}
			vAssert(strings.Contains(out, want), "C12 compare --all reports every rule, the stale one as changed")
		}
	}
}
