//go:build verif

package cmd

func init() {
	vHarnesses["VerifC16Fault"] = VerifC16Fault
	vHarnesses["VerifC16FormatFault"] = VerifC16FormatFault
	vHarnesses["VerifC16RulesFilePerRule"] = VerifC16RulesFilePerRule
}

// the faulty assembly source of each fault class
func c16Source(fault int) string {
	switch fault {
	case 0: // missing include file
		return "a\n##!> include nosuchfile\n"
	case 1: // unknown stored name
		return "a\n##!=> nosuchname\nb\n"
	case 2: // too many end markers
		return "a\n##!<\nb\n"
	case 3: // block never closed
		return "##!> assemble\na\n"
	case 4: // unknown processor
		return "##!> frobnicate\na\n##!<\n"
	case 5: // unknown cmdline type
		return "##!> cmdline vms\nls\n##!<\n"
	case 6: // unsupported flag
		return "##!+ x\na\n"
	case 7: // odd replacement list
		return "##!> include words -- @\n"
	case 8: // malformed entry: rassemble rejects it (stubbed to fail)
		return "a(\n"
	case 9: // missing identifier for input marker
		return "a\n##!=<\n"
	case 14: // include-except whose EXCLUDE file is missing
		return "a\n##!> include-except words nosuchexclude\n"
	case 15: // include file that carries a flags line (must be rejected)
		return "a\n##!> include withflags\n"
	case 16: // include-except whose INCLUDE file is missing
		return "a\n##!> include-except nosuchfile words\n"
	case 17: // missing include inside an assemble block
		return "##!> assemble\nx\n##!> include nosuchfile\n##!<\n"
	case 18: // unknown stored name inside a nested block
		return "##!> assemble\n##!> assemble\na\n##!=> nosuchname\n##!<\n##!<\n"
	}
	return "a\n"
}

// C16: a command that cannot do what was asked does not end with exit status 0. The fault (one of the listed
// classes) sits in the addressed file (single-rule mode) or in the first / middle / last of three files (--all).
// Also covered: rule id not in the rules file, chain offset not present, rules file missing or ambiguous.
func VerifC16Fault() {
	fault := vParam("fault")
	cmdKind := vParam("cmd") // 0 update, 1 compare
	dir := vTempDir()
	ctxt := c08Context(dir)
	vWriteFile(dir+"/regex-assembly/include/words.ra", "ls@\ncat@\n")
	vWriteFile(dir+"/regex-assembly/include/withflags.ra", "##!+ i\nfoo\n")
	all := vParam("all") != 0 // --all or single-rule mode, and the position of the faulty file, are job parameters
	pos := vParam("position")
	good := "a\nb\n"
	files := []string{"932099.ra", "932100.ra", "932101.ra"}
	rules := "SecRule ARGS \"@rx o9\" \\\n    \"id:932099,\\\n    deny\"\n\n" + c08Rules
	rulesName := "REQUEST-932-APPLICATION-ATTACK-RCE.conf"
	ruleValues.id = "932100"
	ruleValues.fileName = "932100.ra"
	ruleValues.chainOffset = 0
	switch fault {
	case 10: // rule id not present in the rules file
		rules = c08Rules[:0] + "SecRule ARGS \"@rx o9\" \\\n    \"id:932099,\\\n    deny\"\n"
		pos = 1
	case 11: // chain offset without a chained rule
		ruleValues.chainOffset = 2
		all = false
	case 12: // no rules file for the prefix
		rulesName = "REQUEST-941-APPLICATION-ATTACK-XSS.conf"
	case 13: // two rules files for the prefix
		vWriteFile(dir+"/rules/REQUEST-932-B.conf", c08Rules)
	}
	vWriteFile(dir+"/rules/"+rulesName, rules)
	for i := 0; i < 3; i++ {
		src := good
		if (fault <= 9 || fault >= 14) && ((all && i == pos) || (!all && i == 1)) {
			src = c16Source(fault)
		}
		vWriteFile(dir+"/regex-assembly/"+files[i], src)
	}
	if fault == 8 {
		vStubJoinError()
	}
	if vNondetBool("github") {
		rootValues.output = gitHub
	}
	if cmdKind == 0 {
		performUpdate(all, ctxt)
		vAssert(false, "C16 regex update ends with exit status 0 although it could not do what was asked")
	} else {
		err := performCompare(all, ctxt)
		vAssert(err != nil, "C16 regex compare ends with exit status 0 although it could not do what was asked")
	}
}

// C16 (format): a file whose block markers do not balance cannot be formatted; format must not report success
// and must leave the file alone.
func VerifC16FormatFault() {
	dir := vTempDir()
	ctxt := c08Setup(dir)
	path := dir + "/regex-assembly/942100.ra"
	in := hdr1 + "\n" + hdr2 + "\n\na\n##!<\nb\n"
	vWriteFile(path, in)
	check := vNondetBool("check")
	err := processFile(path, ctxt, check)
	vReach("formatted")
	vAssert(err != nil, "C16 regex format reports success on a file with an unbalanced end marker")
	vAssert(vReadFile(path) == in, "C16 regex format modifies a file it cannot format")
}

// C16 (--all, one rules file per rule): three rules live in three rules files; the rules file of ONE rule (first,
// middle or last in the walk) is missing (kind 0) or ambiguous (kind 1) while the other rules update fine. The run
// must not end with exit status 0 (an earlier failure must not be forgotten when later rules succeed).
func VerifC16RulesFilePerRule() {
	dir := vTempDir()
	ctxt := c08Context(dir)
	pos := vParam("position")
	kind := vParam("kind")
	ids := []string{"931100", "932100", "933100"}
	for i := 0; i < 3; i++ {
		vWriteFile(dir+"/regex-assembly/"+ids[i]+".ra", "a\n")
		rule := "SecRule ARGS \"@rx old\" \\\n    \"id:" + ids[i] + ",\\\n    deny\"\n"
		if i == pos && kind == 0 {
			continue
		}
		vWriteFile(dir+"/rules/REQUEST-"+ids[i][:3]+"-X.conf", rule)
		if i == pos && kind == 1 {
			vWriteFile(dir+"/rules/REQUEST-"+ids[i][:3]+"-Y.conf", rule)
		}
	}
	if vNondetBool("github") {
		rootValues.output = gitHub
	}
	if vParam("cmd") == 0 {
		performUpdate(true, ctxt)
		vAssert(false, "C16 regex update --all ends with exit status 0 although one rule has no unique rules file")
	} else {
		err := performCompare(true, ctxt)
		vAssert(err != nil, "C16 regex compare --all ends with exit status 0 although one rule has no unique rules file")
	}
}
