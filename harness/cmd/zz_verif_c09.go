//go:build verif

package cmd

import (
	"strconv"
	"strings"

	"github.com/coreruleset/crs-toolchain/v2/configuration"
	"github.com/coreruleset/crs-toolchain/v2/context"
	"github.com/coreruleset/crs-toolchain/v2/regex"
	"github.com/coreruleset/crs-toolchain/v2/regex/parser"
	"github.com/coreruleset/crs-toolchain/v2/regex/processors"
)

func init() {
	vHarnesses["VerifC09LineIdempotent"] = VerifC09LineIdempotent
	vHarnesses["VerifC09FileOnce"] = VerifC09FileOnce
	vHarnesses["VerifC09FileFixedPoint"] = VerifC09FileFixedPoint
	vHarnesses["VerifC10LineContent"] = VerifC10LineContent
	vHarnesses["VerifC10LineMeaning"] = VerifC10LineMeaning
	vHarnesses["VerifC10RejectedLine"] = VerifC10RejectedLine
	vHarnesses["VerifFieldsModel"] = VerifFieldsModel
}

// formatStep is the per-line step of `regex format` exactly as Parse(true) + processFile compose it:
// the parser strips leading blanks and tabs, processLine re-indents.
func formatStep(l string, indent int) (string, int, error) {
	out, next, err := processLine([]byte(strings.TrimLeft(l, " \t")), indent)
	return string(out), next, err
}

func leadingSpaces(s string) int {
	n := 0
	for n < len(s) && s[n] == ' ' {
		n++
	}
	return n
}

// C09 (per line): the formatted line is a fixed point of the step at the same indentation, and it carries
// exactly 2*depth leading spaces (0 for flag, prefix and suffix lines).
func VerifC09LineIdempotent() {
	l := vNondetStrP("line", 24)
	indent := vParam("indent")
	o1, n1, e1 := formatStep(l, indent)
	vAssume(e1 == nil)
	vReach("formatted-once")
	o2, n2, e2 := formatStep(o1, indent)
	vAssert(e2 == nil, "C09 the formatted line is accepted again")
	vAssert(o2 == o1, "C09 formatting a formatted line changes nothing")
	vAssert(n2 == n1, "C09 a formatted line opens/closes the same block")
	if len(o1) > 0 {
		body := strings.TrimLeft(o1, " ")
		want := 2 * indent
		if regex.ProcessorEndRegex.MatchString(body) {
			want = 2 * (indent - 1)
		}
		if regex.FlagsRegex.MatchString(body) || regex.PrefixRegex.MatchString(body) || regex.SuffixRegex.MatchString(body) {
			want = 0
		}
		vAssert(leadingSpaces(o1) == want && len(body) > 0, "C09 two spaces of indentation per open block, flag/prefix/suffix lines at column 0")
	}
}

func stripWS(s string) string {
	out := []byte{}
	for i := 0; i < len(s); i++ {
		if s[i] != ' ' && s[i] != '\t' {
			out = append(out, s[i])
		}
	}
	return string(out)
}

// C10 (per line): formatting changes white space only, and never loses the line.
func VerifC10LineContent() {
	l := vNondetStrP("line", 24)
	indent := vParam("indent")
	o1, _, e1 := formatStep(l, indent)
	vReach("formatted")
	if e1 == nil {
		vAssert(stripWS(o1) == stripWS(l), "C10 formatting changes white space only")
	}
	// a line the step rejects (error) makes processFile stop before anything is written: that the file is then left
	// byte-identical and the command fails is decided on processFile itself (VerifC10RejectedLine, C16)
}

// C10/C16: when the per-line step rejects a line, format does not write the file (the line is not lost) and fails.
func VerifC10RejectedLine() {
	l := vNondetStrOf("line", 6, "#!<> a")
	_, _, e1 := formatStep(l, 0)
	vAssume(e1 != nil)
	dir := vTempDir()
	path := dir + "/regex-assembly/942100.ra"
	in := hdr1 + "\n" + hdr2 + "\n\na\n" + l + "\nb\n"
	vWriteFile(path, in)
	ctxt := processors.NewContext(context.NewWithConfiguration(dir, &configuration.Configuration{}))
	err := processFile(path, ctxt, false)
	vReach("processed")
	vAssert(err != nil, "C10 format fails on a file with a line it cannot format")
	vAssert(vReadFile(path) == in, "C10 a file with a line the formatter rejects is left byte-identical (no line is lost)")
}

// C10 (per line, meaning): for ANY ASCII line (control bytes included) the compiler classifies the formatted line as
// it classified the original one, and an entry (a line that is regex text) keeps every byte apart from its leading
// blanks and tabs - white space inside or at the end of an entry is part of the regex.
func VerifC10LineMeaning() {
	l := vNondetStrA("line", 24)
	vAssume(!strings.Contains(l, "\n"))
	indent := vParam("indent")
	o1, _, e1 := formatStep(l, indent)
	vAssume(e1 == nil)
	vReach("formatted")
	before := strings.TrimLeft(l, " \t")
	after := strings.TrimLeft(o1, " \t")
	kb := parser.VerifParseKind(before)
	ka := parser.VerifParseKind(after)
	vAssert(kb == ka, "C10 the compiler classifies the formatted line as it classified the original line")
	if kb == 0 && !strings.HasPrefix(before, "##!") {
		vAssert(after == before, "C10 an entry keeps every byte apart from its indentation")
	}
	if kb >= 6 && kb <= 8 {
		// flags, prefix and suffix values are literal text of the generated regex: inner white space included
		vAssert(parser.VerifParseValue(after) == parser.VerifParseValue(before), "C10 the flags/prefix/suffix value the compiler reads is the same before and after format")
	}
}

// refFields is strings.Fields for ASCII subjects written as a plain loop (executed instruction by instruction by the
// engine); VerifFieldsModel has the solver compare it with the engine's contract model of strings.Fields.
func refFields(s string) []string {
	out := []string{}
	start := -1
	for i := 0; i < len(s); i++ {
		c := s[i]
		sp := c == ' ' || c == '\t' || c == '\n' || c == '\v' || c == '\f' || c == '\r'
		if sp {
			if start >= 0 {
				out = append(out, s[start:i])
				start = -1
			}
		} else if start < 0 {
			start = i
		}
	}
	if start >= 0 {
		out = append(out, s[start:])
	}
	return out
}

// translator validation: the engine's model of strings.Fields agrees with the reference loop on every ASCII subject
func VerifFieldsModel() {
	l := vNondetStrA("line", 8)
	a := strings.Fields(l)
	b := refFields(l)
	vReach("split")
	vAssert(len(a) == len(b), "strings.Fields model: number of fields")
	vAssert(strings.Join(a, "|") == strings.Join(b, "|"), "strings.Fields model: fields")
}

const (
	hdr1 = "##! Please refer to the documentation at"
	hdr2 = "##! https://coreruleset.org/docs/development/regex_assembly/."
)

// line i of the file: its kind is a job parameter (file structure is enumerated), its free bytes are symbolic
func c09Pick(i int) string {
	switch vParam("k" + strconv.Itoa(i)) {
	case 0:
		return ""
	case 1:
		return hdr1
	case 2:
		return hdr2
	}
	return vNondetStrOf("l"+strconv.Itoa(i), 3, " a#!\r")
}

func countTrailingNewlines(s string) int {
	n := 0
	for n < len(s) && s[len(s)-1-n] == '\n' {
		n++
	}
	return n
}

func c09Input() (string, int) {
	k := vParam("lines")
	finalNL := vNondetBool("final_newline")
	in := ""
	for i := 0; i < k; i++ {
		if i > 0 {
			in += "\n"
		}
		in += c09Pick(i)
	}
	if finalNL && k > 0 {
		in += "\n"
	}
	if h := vParam("hdr"); h > 0 {
		// the file already carries the standard header, without (1) or with (2) the blank line after it
		pre := hdr1 + "\n" + hdr2 + "\n"
		if h == 2 {
			pre += "\n"
		}
		in = pre + in
	}
	return in, k
}

// C09 (file level, one application): `regex format` on a file of K lines (header lines, blank lines, short
// symbolic lines; with or without final newline) produces the standard header followed by a blank line, ends with
// exactly one newline, and --check (run before) succeeds exactly when the file is left byte-identical and never writes.
func VerifC09FileOnce() {
	in, _ := c09Input()
	dir := vTempDir()
	path := dir + "/regex-assembly/942100.ra"
	vWriteFile(path, in)
	ctxt := processors.NewContext(context.NewWithConfiguration(dir, &configuration.Configuration{}))
	errCheck := processFile(path, ctxt, true)
	vAssert(vReadFile(path) == in, "C09 --check never writes")
	err1 := processFile(path, ctxt, false)
	once := vReadFile(path)
	vReach("formatted-once")
	vAssert(err1 == nil, "C09 formatting succeeds")
	vAssert((errCheck == nil) == (once == in), "C09 --check succeeds exactly for files that format leaves byte-identical")
	vAssert(strings.HasPrefix(once, hdr1+"\n"+hdr2+"\n\n") || once == hdr1+"\n"+hdr2+"\n", "C09 the file starts with the standard header followed by a blank line")
	vAssert(countTrailingNewlines(once) == 1, "C09 no trailing empty lines and exactly one final newline")
}

// C09 (file level, fixed point): a file that already has the canonical layout (header, blank line, formatted
// lines, one final newline) is left byte-identical by format and accepted by --check.
func VerifC09FileFixedPoint() {
	k := vParam("lines")
	in := hdr1 + "\n" + hdr2 + "\n"
	last := ""
	for i := 0; i < k; i++ {
		l := c09Pick(i)
		// every line is a fixed point of the per-line step at depth 0 (no leading blanks, no CR)
		vAssume(len(l) == 0 || (l[0] != ' ' && l[0] != '\r'))
		vAssume(!strings.Contains(l, "\r"))
		if i == 0 {
			in += "\n"
		}
		in += l + "\n"
		last = l
	}
	vAssume(k == 0 || len(last) > 0)
	dir := vTempDir()
	path := dir + "/regex-assembly/942100.ra"
	vWriteFile(path, in)
	ctxt := processors.NewContext(context.NewWithConfiguration(dir, &configuration.Configuration{}))
	errCheck := processFile(path, ctxt, true)
	err1 := processFile(path, ctxt, false)
	vReach("formatted")
	vAssert(err1 == nil && vReadFile(path) == in, "C09 formatting an already formatted file changes nothing")
	vAssert(errCheck == nil, "C09 --check accepts a formatted file")
}
