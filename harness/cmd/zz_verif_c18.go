//go:build verif

package cmd

func init() {
	vHarnesses["VerifC18ParseRuleId"] = VerifC18ParseRuleId
	vHarnesses["VerifC18Root"] = VerifC18Root
	vHarnesses["VerifC18StdinVsFile"] = VerifC18StdinVsFile
}

// C18: the CRS root is the nearest ancestor-or-self of the start directory that contains regex-assembly.
// Which of the candidate directories contain regex-assembly is symbolic (all nestings of roots at once).
func VerifC18Root() {
	dir := vTempDir()
	chain := []string{dir + "/a", dir + "/a/b", dir + "/a/b/c", dir + "/a/b/c/d"}
	depth := vParam("depth") // start directory = chain[depth]
	has := []bool{vNondetBool("root_in_a"), vNondetBool("root_in_b"), vNondetBool("root_in_c"), vNondetBool("root_in_d")}
	for i := 0; i < 4; i++ {
		vStatDir(chain[i]+"/regex-assembly", has[i])
	}
	vStatDir(chain[depth], true)
	got, err := findRootDirectory(chain[depth])
	vReach("resolved")
	want := ""
	for i := depth; i >= 0; i-- {
		if has[i] {
			want = chain[i]
			break
		}
	}
	if want != "" {
		vAssert(err == nil && got == want, "C18 the root is the nearest ancestor-or-self that contains regex-assembly")
	} else {
		// no root below the temporary directory: the search continues above it, where nothing is modelled
		vAssert(err != nil || len(got) < len(dir)+2, "C18 no directory without regex-assembly is returned as root")
	}
}

// C18: generate gives the same result for a file argument and for the same bytes on stdin.
func VerifC18StdinVsFile() {
	// two lines with symbolic bytes (blanks and tabs included); the line structure itself is fixed
	content := vNondetStrOf("l1", 2, "ab \t") + "\n" + vNondetStrOf("l2", 2, "ab \t") + "\n"
	dir := vTempDir()
	vWriteFile(dir+"/regex-assembly/123456.ra", content)
	rootValues.workingDirectory = workingDirectory(dir)
	rootValues.configurationFileName = "toolchain.yaml"
	vStubJoinEcho()
	ruleValues.id = "123456"
	ruleValues.fileName = "123456.ra"
	ruleValues.chainOffset = 0
	gen := createGenerateCommand()
	ruleValues.useStdin = false
	fromFile := vCaptureStdout(func() { gen.Run(gen, []string{"123456"}) })
	vSetStdin(content)
	ruleValues.useStdin = true
	fromStdin := vCaptureStdout(func() { gen.Run(gen, []string{"-"}) })
	vReach("both-generated")
	vAssert(fromFile == fromStdin, "C18 generate prints the same regex for a file argument and for the same bytes on stdin")
}

// refParseRuleId is an independent reading of the documented argument grammar
//   NNNNNN[-chainK][.ra]   with K <= 255
// written as plain byte loops (it is executed symbolically like the code under test).
func refParseRuleId(a string) (ok bool, id string, file string, off int) {
	n := len(a)
	if n < 6 {
		return false, "", "", 0
	}
	for i := 0; i < 6; i++ {
		if a[i] < '0' || a[i] > '9' {
			return false, "", "", 0
		}
	}
	p := 6
	k := 0
	if n >= p+6 && a[p:p+6] == "-chain" {
		q := p + 6
		d := 0
		for q < n && a[q] >= '0' && a[q] <= '9' {
			if k <= 255 {
				k = k*10 + int(a[q]-'0')
			}
			q++
			d++
		}
		if d == 0 || k > 255 {
			return false, "", "", 0
		}
		p = q
	}
	hasExt := false
	if n == p+3 && a[p:] == ".ra" {
		hasExt = true
		p += 3
	}
	if p != n {
		return false, "", "", 0
	}
	file = a
	if !hasExt {
		file = a + ".ra"
	}
	return true, a[:6], file, k
}

// C18: parseRuleId accepts exactly the documented grammar and resolves id, file name and chain offset.
func VerifC18ParseRuleId() {
	arg := vNondetStr("arg", 26)
	for i := 0; i < len(arg); i++ {
		vAssume(arg[i] < 0x80)
	}
	// arbitrary previous state of the package-level result struct
	ruleValues.id = vNondetStr("old_id", 2)
	ruleValues.fileName = vNondetStr("old_file", 2)
	ruleValues.chainOffset = vNondetByte("old_off")
	ruleValues.useStdin = vNondetBool("old_stdin")
	err := parseRuleId(arg)
	ok, id, file, off := refParseRuleId(arg)
	vReach("after-parse")
	vAssert((err == nil) == ok, "accepted iff NNNNNN[-chainK][.ra] with K<=255")
	if err == nil {
		vAssert(ruleValues.id == id, "rule id is the six digits")
		vAssert(ruleValues.fileName == file, "file name is the argument with .ra appended iff absent")
		vAssert(int(ruleValues.chainOffset) == off, "chain offset is K (0 when absent), not wrapped")
		vAssert(!ruleValues.useStdin, "stdin mode is reset")
	}
}
