//go:build verif

package cmd

import (
	"github.com/coreruleset/crs-toolchain/v2/configuration"
	"github.com/coreruleset/crs-toolchain/v2/context"
	"github.com/coreruleset/crs-toolchain/v2/regex/processors"
)

func init() {
	vHarnesses["VerifC17Format"] = VerifC17Format
	vHarnesses["VerifC17Update"] = VerifC17Update
}

func c17Lines(k int, long int) string {
	// ordinary lines differ from the long-line sentinel in their first byte only (keeps the symbolic part small)
	names := []string{"a<LINE-OF-70000-B>>", "b<LINE-OF-70000-B>>", "c<LINE-OF-70000-B>>", "d<LINE-OF-70000-B>>", "e<LINE-OF-70000-B>>"}
	out := ""
	for i := 0; i < k; i++ {
		if i == long {
			out += vLongLine() + "\n"
		} else {
			out += names[i][:19] + "\n"
		}
	}
	return out
}

func c17Count(s string) int {
	n := 0
	for i := 0; i < len(s); i++ {
		if s[i] == '\n' {
			n++
		}
	}
	return n
}

// C17: format rewrites an assembly file with one line longer than 64 KiB completely (all lines kept), or fails.
func VerifC17Format() {
	k := vParam("lines")
	long := vParam("long") // position of the long line: a job parameter, or -1 = symbolic (decided by the solver)
	if long < 0 {
		long = vNondetInt("long_at")
	}
	vAssume(0 <= long && long < k)
	dir := vTempDir()
	path := dir + "/regex-assembly/942100.ra"
	vWriteFile(path, hdr1+"\n"+hdr2+"\n\n"+c17Lines(k, long))
	ctxt := processors.NewContext(context.NewWithConfiguration(dir, &configuration.Configuration{}))
	vReach("before-formatted")
	err := processFile(path, ctxt, false)
	vAssert(err != nil || c17Count(vReadFile(path)) == k+3, "C17 format: lines after a line longer than 64 KiB are silently dropped from the rewritten file")
}

// C17: update keeps every line of a rules file in which a line after the addressed rule is longer than 64 KiB.
func VerifC17Update() {
	k := vParam("lines")
	long := vParam("long") // position of the long line: a job parameter, or -1 = symbolic (decided by the solver)
	if long < 0 {
		long = vNondetInt("long_at")
	}
	vAssume(0 <= long && long < k)
	dir := vTempDir()
	path := dir + "/rules/REQUEST-932-X.conf"
	rule := "SecRule ARGS \"@rx old\" \\\n    \"id:932100,\\\n    deny\"\n"
	vWriteFile(path, rule+c17Lines(k, long))
	vReach("before-updated")
	updateRegex(path, "932100", 0, "new")
	vAssert(c17Count(vReadFile(path)) == k+3, "C17 update: lines after a line longer than 64 KiB are silently dropped from the rules file")
}
