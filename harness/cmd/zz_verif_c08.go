//go:build verif

package cmd

import (
	"github.com/coreruleset/crs-toolchain/v2/configuration"
	"github.com/coreruleset/crs-toolchain/v2/context"
	"github.com/coreruleset/crs-toolchain/v2/regex/processors"
)

func init() {
	vHarnesses["VerifC08AllIsolated"] = VerifC08AllIsolated
	vHarnesses["VerifC08AllComplete"] = VerifC08AllComplete
}

const c08Rules = "SecRule ARGS \"@rx old0\" \\\n    \"id:932100,\\\n    deny\"\n\nSecRule ARGS \"@rx old1\" \\\n    \"id:932101,\\\n    deny\"\n"

func c08Setup(dir string) *processors.Context {
	vWriteFile(dir+"/rules/REQUEST-932-APPLICATION-ATTACK-RCE.conf", c08Rules)
	return c08Context(dir)
}

func c08Context(dir string) *processors.Context {
	vStubJoinEcho()
	rootValues.workingDirectory = workingDirectory(dir)
	rootValues.configurationFileName = "toolchain.yaml"
	rootValues.output = text
	ruleValues.useStdin = false
	return processors.NewContext(context.NewWithConfiguration(dir, &configuration.Configuration{}))
}

// C08 (B): nothing computed for one assembly file influences another under --all. File U references a stored
// expression it never stores; alone it fails. Another file S stores that name. Whatever the walk order (S before
// or after U - the solver picks the names), `update --all` / `compare --all` must not complete as if U were fine.
func VerifC08AllIsolated() {
	dir := vTempDir()
	ctxt := c08Setup(dir)
	storing := "a\n##!=< shared\n##!=> shared\n"
	using := "##!=> shared\nb\n"
	if vParam("user_first") != 0 { // which of the two files the walk reaches first is a job parameter
		vWriteFile(dir+"/regex-assembly/932100.ra", using)
		vWriteFile(dir+"/regex-assembly/932101.ra", storing)
	} else {
		vWriteFile(dir+"/regex-assembly/932100.ra", storing)
		vWriteFile(dir+"/regex-assembly/932101.ra", using)
	}
	if vParam("compare") != 0 {
		_ = performCompare(true, ctxt)
	} else {
		performUpdate(true, ctxt)
	}
	vAssert(false, "C08 --all completed although one of the files fails when processed alone (state leaked between files)")
}

// C08 (C): --all processes every rule file whatever else lies in the directory: a non-rule .ra file, a backup
// and an include directory next to the rule files do not stop the walk.
func VerifC08AllComplete() {
	dir := vTempDir()
	ctxt := c08Setup(dir)
	vWriteFile(dir+"/regex-assembly/123456-draft.ra", "x\n")
	vWriteFile(dir+"/regex-assembly/932100.ra", "a\n")
	vWriteFile(dir+"/regex-assembly/932100.ra.orig", "zzz\n")
	vWriteFile(dir+"/regex-assembly/932101.ra", "b\n")
	vWriteFile(dir+"/regex-assembly/include/words.ra", "w\n")
	vWriteFile(dir+"/regex-assembly/zz-notes.ra", "n\n")
	performUpdate(true, ctxt)
	vReach("updated-all")
	want := "SecRule ARGS \"@rx a\" \\\n    \"id:932100,\\\n    deny\"\n\nSecRule ARGS \"@rx b\" \\\n    \"id:932101,\\\n    deny\"\n"
	vAssert(vReadFile(dir+"/rules/REQUEST-932-APPLICATION-ATTACK-RCE.conf") == want, "C08 --all updates every rule exactly as the single-file invocations would")
}
