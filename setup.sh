#!/bin/bash
# Offline build of the framework's Go helpers. Idempotent.
set -e
cd "$(dirname "$0")"
export GOFLAGS=-mod=mod GOPROXY=off GOSUMDB=off GOTOOLCHAIN=local
mkdir -p .build evidence out
for t in ssadump rxtool; do
  if [ -d engine/$t ]; then (cd engine/$t && go build -o ../../.build/$t .); fi
done
echo setup ok
