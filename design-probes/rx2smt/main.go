package main

// prototype: regexp/syntax -> SMT-LIB RegLan (search semantics with B/E markers)
import (
	"bufio"
	"fmt"
	"os"
	"regexp/syntax"
	"strings"
	"unicode"
)

const lo, hi = 0x01, 0x7e // alphabet A = 0x01..0x7e minus VT(0x0b); B=0x7f? use \u{100}, \u{101} as markers
var markB, markE = `\u{100}`, `\u{101}`

func ch(r rune) string { return fmt.Sprintf(`\u{%x}`, r) }

func classA(ranges []rune) string {
	// intersect with A (without 0x0b)
	var parts []string
	add := func(a, b rune) {
		if a > b { return }
		if a == b { parts = append(parts, fmt.Sprintf(`(str.to_re "%s")`, ch(a))) } else {
			parts = append(parts, fmt.Sprintf(`(re.range "%s" "%s")`, ch(a), ch(b))) }
	}
	for i := 0; i+1 < len(ranges); i += 2 {
		a, b := ranges[i], ranges[i+1]
		if a < lo { a = lo }
		if b > hi { b = hi }
		if a > b { continue }
		if a <= 0x0b && 0x0b <= b { add(a, 0x0a); add(0x0c, b) } else { add(a, b) }
	}
	switch len(parts) {
	case 0: return "re.none"
	case 1: return parts[0]
	}
	return "(re.union " + strings.Join(parts, " ") + ")"
}

func tr(r *syntax.Regexp) string {
	switch r.Op {
	case syntax.OpNoMatch: return "re.none"
	case syntax.OpEmptyMatch: return `(str.to_re "")`
	case syntax.OpLiteral:
		var parts []string
		for _, c := range r.Rune {
			if r.Flags&syntax.FoldCase != 0 {
				rs := []rune{c, c}
				for f := unicode.SimpleFold(c); f != c; f = unicode.SimpleFold(f) { rs = append(rs, f, f) }
				parts = append(parts, classA(rs))
			} else { parts = append(parts, classA([]rune{c, c})) }
		}
		if len(parts) == 1 { return parts[0] }
		return "(re.++ " + strings.Join(parts, " ") + ")"
	case syntax.OpCharClass: return classA(r.Rune)
	case syntax.OpAnyCharNotNL: return classA([]rune{0, 9, 11, unicode.MaxRune})
	case syntax.OpAnyChar: return classA([]rune{0, unicode.MaxRune})
	case syntax.OpBeginText: return fmt.Sprintf(`(str.to_re "%s")`, markB)
	case syntax.OpEndText: return fmt.Sprintf(`(str.to_re "%s")`, markE)
	case syntax.OpCapture: return tr(r.Sub[0])
	case syntax.OpStar: return "(re.* " + tr(r.Sub[0]) + ")"
	case syntax.OpPlus: return "(re.+ " + tr(r.Sub[0]) + ")"
	case syntax.OpQuest: return "(re.opt " + tr(r.Sub[0]) + ")"
	case syntax.OpRepeat:
		if r.Max < 0 { return fmt.Sprintf("(re.++ ((_ re.^ %d) %s) (re.* %s))", r.Min, tr(r.Sub[0]), tr(r.Sub[0])) }
		return fmt.Sprintf("((_ re.loop %d %d) %s)", r.Min, r.Max, tr(r.Sub[0]))
	case syntax.OpConcat, syntax.OpAlternate:
		op := "re.++"
		if r.Op == syntax.OpAlternate { op = "re.union" }
		var parts []string
		for _, s := range r.Sub { parts = append(parts, tr(s)) }
		return "(" + op + " " + strings.Join(parts, " ") + ")"
	}
	panic("unsupported op " + r.Op.String())
}

func search(src string) string {
	r, err := syntax.Parse(src, syntax.Perl)
	if err != nil { panic(err) }
	allA := classA([]rune{0, unicode.MaxRune})
	return fmt.Sprintf(`(re.++ (re.opt (re.++ (str.to_re "%s") (re.* %s))) %s (re.opt (re.++ (re.* %s) (str.to_re "%s"))))`, markB, allA, tr(r), allA, markE)
}

func main() {
	sc := bufio.NewScanner(os.Stdin)
	sc.Buffer(make([]byte, 1<<24), 1<<24)
	var rx []string
	for sc.Scan() { rx = append(rx, sc.Text()) }
	allA := classA([]rune{0, unicode.MaxRune})
	fmt.Println("(set-logic QF_S)\n(declare-const w String)")
	fmt.Printf("(define-fun R1 () RegLan %s)\n(define-fun R2 () RegLan %s)\n", search(rx[0]), search(rx[1]))
	fmt.Printf("(assert (str.in_re w (re.++ (str.to_re \"%s\") (re.* %s) (str.to_re \"%s\"))))\n", markB, allA, markE)
	fmt.Println("(assert (str.in_re w (re.union (re.inter R1 (re.comp R2)) (re.inter R2 (re.comp R1)))))\n(check-sat)\n(get-value (w))")
}
