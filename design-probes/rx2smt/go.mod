module rx2smt
go 1.23
