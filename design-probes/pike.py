"""Exact leftmost-first submatch oracle from Go's compiled syntax.Prog, generic over a boolean/int algebra."""
import json, subprocess, itertools, sys, time
import z3

class Conc:  # concrete algebra
    T=True; F=False
    def And(s,*a): return all(a)
    def Or(s,*a): return any(a)
    def Not(s,a): return not a
    def If(s,c,a,b): return a if c else b
    def byte_in(s,b,ranges): return any(lo<=b<=hi for lo,hi in ranges)
    def eq_int(s,a,b): return a==b
    def int(s,v): return v
    def lt(s,a,b): return a<b
class Sym:
    T=z3.BoolVal(True); F=z3.BoolVal(False)
    def And(s,*a): return z3.And(*a)
    def Or(s,*a): return z3.Or(*a)
    def Not(s,a): return z3.Not(a)
    def If(s,c,a,b): return z3.If(c,a,b)
    def byte_in(s,b,ranges):
        return z3.Or(*[ (b==lo) if lo==hi else z3.And(z3.UGE(b,lo), z3.ULE(b,hi)) for lo,hi in ranges]) if ranges else z3.BoolVal(False)
    def eq_int(s,a,b): return a==b
    def int(s,v): return z3.BitVecVal(v,8)
    def lt(s,a,b): return z3.ULT(a,b)

def load_progs(patterns):
    out=subprocess.run(['/tmp/verif-probe/rxprog','prog']+patterns,capture_output=True,text=True,check=True).stdout
    return json.loads(out)

def ranges_of(inst):
    r=inst.get('rune') or []
    op=inst['op']
    if op=='InstRuneAny': return [(0,127)]
    if op=='InstRuneAnyNotNL': return [(0,9),(11,127)]
    if op=='InstRune1' or (op=='InstRune' and len(r)==1):
        c=r[0]; rs=[(c,c)]
        if inst.get('fold'):
            if 65<=c<=90: rs.append((c+32,c+32))
            if 97<=c<=122: rs.append((c-32,c-32))
        return [(lo,min(hi,127)) for lo,hi in rs if lo<=127]
    rs=[(r[i],r[i+1]) for i in range(0,len(r),2)]
    assert not inst.get('fold') or True
    return [(lo,min(hi,127)) for lo,hi in rs if lo<=127]

EPS=('InstAlt','InstAltMatch','InstCapture','InstNop','InstEmptyWidth')
def eps_succ(inst):
    op=inst['op']
    if op in ('InstAlt','InstAltMatch'): return [inst['out'],inst['arg']]
    if op in ('InstCapture','InstNop','InstEmptyWidth'): return [inst['out']]
    return []
def topo(prog):
    insts=prog['inst']; n=len(insts); state=[0]*n; order=[]
    def dfs(u):
        state[u]=1
        for v in eps_succ(insts[u]):
            if state[v]==1: raise ValueError('epsilon cycle')
            if state[v]==0: dfs(v)
        state[u]=2; order.append(u)
    for u in range(n):
        if state[u]==0: dfs(u)
    return order  # successors before predecessors (post-order)

def match(A, prog, b, ln, N):
    """b: list of N byte terms, ln: length term. returns (matched, caps[list of pos terms], )"""
    insts=prog['inst']; n=len(insts); post=topo(prog)
    def empty_ok(flags,p):
        conds=[]
        if flags&1: conds.append(A.Or(p==0, A.eq_int(b[p-1],A.int(10))) if p>0 else A.T)   # BeginLine
        if flags&2: conds.append(A.Or(A.eq_int(ln,A.int(p)), A.eq_int(b[p],A.int(10)) if p<N else A.F))  # EndLine
        if flags&4: conds.append(A.T if p==0 else A.F)   # BeginText
        if flags&8: conds.append(A.eq_int(ln,A.int(p)))  # EndText
        if flags&48: raise ValueError('word boundary unsupported in prototype')
        return A.And(*conds) if conds else A.T
    reach=[[None]*n for _ in range(N+2)]
    for pc in range(n): reach[N+1][pc]=A.F
    for p in range(N,-1,-1):
        inb = A.Not(A.lt(ln, A.int(p)))           # p <= len
        for pc in post:
            i=insts[pc]; op=i['op']
            if op=='InstMatch': v=inb
            elif op=='InstFail': v=A.F
            elif op in ('InstAlt','InstAltMatch'): v=A.Or(reach[p][i['out']],reach[p][i['arg']])
            elif op in ('InstCapture','InstNop'): v=reach[p][i['out']]
            elif op=='InstEmptyWidth': v=A.And(inb, empty_ok(i['arg'],p), reach[p][i['out']])
            else:
                v = A.And(A.lt(A.int(p),ln), A.byte_in(b[p],ranges_of(i)), reach[p+1][i['out']]) if p<N else A.F
            reach[p][pc]=v
    st=prog['start']
    matched=A.Or(*[reach[p][st] for p in range(N+1)])
    # leftmost start
    vis=[[A.F]*n for _ in range(N+2)]
    earlier=A.F
    starts=[]
    for p in range(N+1):
        here=A.And(reach[p][st],A.Not(earlier)); starts.append(here); vis[p][st]=here
        earlier=A.Or(earlier,reach[p][st])
    ncap=prog['numcap']; caps=[A.int(255)]*ncap   # 255 = unset
    for p in range(N+1): caps[0]=A.If(starts[p],A.int(p),caps[0])
    pre=list(reversed(post))
    for p in range(N+1):
        for pc in pre:
            v=vis[p][pc]; i=insts[pc]; op=i['op']
            if op=='InstMatch': caps[1]=A.If(v,A.int(p),caps[1])
            elif op in ('InstAlt','InstAltMatch'):
                takeout=A.And(v,reach[p][i['out']]); takearg=A.And(v,A.Not(reach[p][i['out']]))
                vis[p][i['out']]=A.Or(vis[p][i['out']],takeout); vis[p][i['arg']]=A.Or(vis[p][i['arg']],takearg)
            elif op=='InstCapture':
                if i['arg']<ncap: caps[i['arg']]=A.If(v,A.int(p),caps[i['arg']])
                vis[p][i['out']]=A.Or(vis[p][i['out']],v)
            elif op in ('InstNop','InstEmptyWidth'): vis[p][i['out']]=A.Or(vis[p][i['out']],v)
            elif op=='InstFail': pass
            else:
                if p<N: vis[p+1][i['out']]=A.Or(vis[p+1][i['out']],v)
    return matched,caps

def go_match(pattern, strings):
    out=subprocess.run(['/tmp/verif-probe/rxprog','match',pattern],input=json.dumps(strings),capture_output=True,text=True,check=True).stdout
    return json.loads(out)

def validate(pattern, alphabet, maxlen):
    prog=load_progs([pattern])[0]
    strs=[''.join(t) for L in range(maxlen+1) for t in itertools.product(alphabet,repeat=L)]
    go=go_match(pattern,strs); A=Conc(); bad=0
    for s,g in zip(strs,go):
        N=maxlen; b=[ord(c) for c in s]+[0]*(N-len(s))
        m,caps=match(A,prog,b,len(s),N)
        mine=None if not m else [(-1 if c==255 else c) for c in caps]
        if mine!=g:
            bad+=1
            if bad<5: print('MISMATCH',repr(s),g,mine)
    print(f'validate {pattern!r}: {len(strs)} strings, {bad} mismatches')

if __name__=='__main__':
    t=time.time()
    validate(r'(.*"!?@ )(.*)(" Z)', ['"','@',' ','Z','!'], 6)
    validate(r'(.*d:)\s+(.*$)', ['d',':',' ','1'], 6)
    validate(r'^\s*##!(?:[^^$+><=]|$)', ['#','!',' ','>','a','$'], 5)
    validate(r'(v/)(\d+\.\d+(-[a-z0-9-]+)?)', ['v','/','1','.','-','a'], 6)
    validate(r'^(#>\s*d\s+([a-z-_]+)\s+)(\S+)\s*$', ['#','>',' ','d','-'], 7)
    validate(r'#>\s*i\s+(\S+)(?:\s*--\s*(.*?))?\s*$', ['#','>',' ','i','-'], 7)
    validate(r'^(\d{2})(?:-c(\d+))?(?:\.r)?$', ['1','-','c','.','r'], 7)
    validate(r'(?i)a(b|c)*?c', ['a','b','c','A','C'], 6)
    print('%.1fs'%(time.time()-t))
