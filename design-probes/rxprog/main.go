package main

import (
	"encoding/json"
	"fmt"
	"os"
	"regexp"
	"regexp/syntax"
)

type Inst struct {
	Op   string `json:"op"`
	Out  uint32 `json:"out"`
	Arg  uint32 `json:"arg"`
	Rune []rune `json:"rune,omitempty"`
	Fold bool   `json:"fold,omitempty"`
}
type Prog struct {
	Pattern string `json:"pattern"`
	Start   int    `json:"start"`
	NumCap  int    `json:"numcap"`
	Inst    []Inst `json:"inst"`
}

func main() {
	if os.Args[1] == "prog" {
		var out []Prog
		for _, p := range os.Args[2:] {
			re, err := syntax.Parse(p, syntax.Perl)
			if err != nil { panic(err) }
			nc := re.MaxCap()
			prog, err := syntax.Compile(re.Simplify())
			if err != nil { panic(err) }
			pr := Prog{Pattern: p, Start: prog.Start, NumCap: 2 * (nc + 1)}
			for _, i := range prog.Inst {
				pr.Inst = append(pr.Inst, Inst{Op: i.Op.String(), Out: i.Out, Arg: i.Arg, Rune: i.Rune, Fold: i.Op == syntax.InstRune && syntax.Flags(i.Arg)&syntax.FoldCase != 0})
			}
			out = append(out, pr)
		}
		json.NewEncoder(os.Stdout).Encode(out)
		return
	}
	// match mode: pattern, then strings (hex) -> FindStringSubmatchIndex
	re := regexp.MustCompile(os.Args[2])
	var res [][]int
	dec := json.NewDecoder(os.Stdin)
	var inputs []string
	dec.Decode(&inputs)
	for _, s := range inputs { res = append(res, re.FindStringSubmatchIndex(s)) }
	json.NewEncoder(os.Stdout).Encode(res)
	_ = fmt.Sprint
}
