module rxprog
go 1.23
