"""Vector-of-bytes symbolic strings with symbolic length (prototype for E1's string library)."""
import z3
B8=lambda v: z3.BitVecVal(v,8)
class S:
    def __init__(s, b, ln, cap): s.b=b; s.ln=ln; s.cap=cap      # b: list of cap BV8 terms, ln: BV8 term
    @staticmethod
    def const(t):
        t=t.encode() if isinstance(t,str) else t
        return S([B8(c) for c in t], B8(len(t)), len(t))
    @staticmethod
    def fresh(name, cap):
        return S([z3.BitVec(f'{name}_{i}',8) for i in range(cap)], z3.BitVec(f'{name}_len',8), cap)
    def at(s,p): return s.b[p] if p<s.cap else B8(0)
def concat(a,b):
    cap=a.cap+b.cap; out=[]
    for p in range(cap):
        # b shifted by a.ln
        v=B8(0)
        for la in range(min(a.cap,p),-1,-1):
            if p-la < b.cap: v=z3.If(a.ln==la, b.b[p-la], v)
        out.append(z3.If(z3.ULT(p,a.ln), a.at(p), v) if p<a.cap else v)
    return S(out, a.ln+b.ln, cap)
def concat_all(parts):
    r=parts[0]
    for p in parts[1:]: r=concat(r,p)
    return r
def substr(s,start,end,cap=None):
    """s[start:end], start/end BV8 terms (assumed start<=end<=s.ln)."""
    cap=cap or s.cap; out=[]
    for q in range(cap):
        v=B8(0)
        for st in range(s.cap-q-1,-1,-1): v=z3.If(start==st, s.b[st+q], v)
        out.append(v)
    return S(out, end-start, cap)
def ite(c,a,b):
    cap=max(a.cap,b.cap)
    return S([z3.If(c,a.at(p),b.at(p)) for p in range(cap)], z3.If(c,a.ln,b.ln), cap)
def eq(a,b):
    cap=max(a.cap,b.cap)
    return z3.And(a.ln==b.ln, *[z3.Implies(z3.ULT(p,a.ln), a.at(p)==b.at(p)) for p in range(cap)])
def trunc(s,cap):   # caller guarantees ln<=cap
    return S(s.b[:cap]+[B8(0)]*max(0,cap-s.cap), s.ln, cap)
def value(m,s):
    L=m.eval(s.ln,model_completion=True).as_long()
    return bytes(m.eval(s.at(i),model_completion=True).as_long() for i in range(min(L,s.cap)))
