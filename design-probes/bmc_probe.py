import sys, time
from z3 import *
N = int(sys.argv[1])
W = 64
inp = Array('inp', BitVecSort(W), BitVecSort(8))
ln = BitVec('len', W)
start = BitVec('start', W)
def bv(x): return BitVecVal(x, W)
def is_escaped(pos, oob):   # returns (bool term); reads inp[pos-1], ... ; merged loop unrolled N
    cnt = bv(0); idx = pos - 1; active = BoolVal(True)
    for _ in range(N + 1):
        cond = And(active, idx >= 0)           # signed
        oob.append(And(cond, Not(ULT(idx, ln))))
        isbs = Select(inp, idx) == 92
        step = And(cond, isbs)
        cnt = If(step, cnt + 1, cnt); idx = If(step, idx - 1, idx)
        active = step
    return URem(cnt, bv(2)) != 0
def find_end():
    oob = []
    has_alt = BoolVal(False); par = bv(1); idx = start; active = BoolVal(True)
    unwind = None
    for _ in range(N + 1):
        cond = And(active, par > 0)
        oob.append(And(cond, Not(ULT(idx, ln))))
        c = Select(inp, idx)
        esc = is_escaped(idx, [o for o in []])  # oob inside IsEscaped impossible if idx in range; skip collecting
        par2 = If(And(c == 40, Not(esc)), par + 1, If(And(c == 41, Not(esc)), par - 1, par))
        alt2 = If(And(c == 124, par == 1), BoolVal(True), has_alt)
        par = If(cond, par2, par); has_alt = If(cond, alt2, has_alt); idx = If(cond, idx + 1, idx)
        active = cond
    unwind = And(active, par > 0)
    return idx - 2, has_alt, Or(oob), unwind
end, alt, oob, unwind = find_end()
s = Solver()
s.add(ULE(ln, N), ULE(start, ln))
# 1) reachability of OOB (expect sat)
s.push(); s.add(oob); t=time.time(); r=s.check(); print('oob reachable:', r, '%.2fs'%(time.time()-t))
if r==sat:
    m=s.model(); L=m.eval(ln).as_long(); print('len',L,'start',m.eval(start).as_long(), bytes([m.eval(Select(inp,bv(i))).as_long() for i in range(L)]))
s.pop()
# 2) unwinding assertion (expect unsat)
s.push(); s.add(Not(oob), unwind); t=time.time(); print('unwind violated:', s.check(), '%.2fs'%(time.time()-t)); s.pop()
# 3) post-condition when no OOB: input[end+1] == ')' and end+1 < len  (expect unsat of negation)
s.push(); s.add(Not(oob), Not(And(ULT(end+1, ln), Select(inp, end+1) == 41))); t=time.time(); print('postcond violated:', s.check(), '%.2fs'%(time.time()-t)); s.pop()
