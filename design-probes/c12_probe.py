import time, z3, sys
from pike import *
RMAX=int(sys.argv[1])
pat=r'(.*"!?@rx )(.*)(" \\)'
prog=load_progs([pat])[0]
pre=b'SecRule A "@rx '; suf=b'" \\'
N=len(pre)+RMAX+len(suf)
A=Sym()
rl=z3.BitVec('rlen',8); R=[z3.BitVec(f'r{i}',8) for i in range(RMAX)]
s=z3.Solver(); s.add(z3.ULE(rl,RMAX))
for i in range(RMAX):
    s.add(z3.UGE(R[i],32), z3.ULE(R[i],126))
    # C02-style precondition: a quote is always preceded by a backslash
    s.add(z3.Implies(z3.And(z3.ULT(i,rl), R[i]==34), (R[i-1]==92) if i>0 else False))
# line bytes: pre ++ R[:rl] ++ suf  (position-wise ite over rl)
line=[]
for p in range(N):
    if p<len(pre): line.append(z3.BitVecVal(pre[p],8)); continue
    q=p-len(pre)
    cands=z3.BitVecVal(0,8)
    for L in range(RMAX,-1,-1):
        if q<L: v=R[q]
        elif q-L<len(suf): v=z3.BitVecVal(suf[q-L],8)
        else: v=z3.BitVecVal(0,8)
        cands=z3.If(rl==L,v,cands)
    line.append(cands)
ln=rl+len(pre)+len(suf)
t=time.time(); m,caps=match(A,prog,line,ln,N); print('encode %.1fs'%(time.time()-t))
# property: read-back operand (group 2 = caps[4],caps[5]) is exactly R
ok=z3.And(m, caps[4]==len(pre), caps[5]==rl+len(pre))
s.add(z3.Not(ok))
t=time.time(); r=s.check(); print('roundtrip violated:',r,'%.1fs'%(time.time()-t))
if r==z3.sat:
    mo=s.model(); L=mo.eval(rl).as_long(); rr=bytes(mo.eval(R[i],model_completion=True).as_long() for i in range(L)); print('R =',rr, 'caps', [mo.eval(c).as_long() for c in caps])
    # block the known class: R contains `"@rx ` ; ask again
    def contains(seq):
        alts=[]
        for st in range(RMAX-len(seq)+1):
            alts.append(z3.And(z3.ULE(st+len(seq),rl),*[R[st+k]==seq[k] for k in range(len(seq))]))
        return z3.Or(*alts) if alts else z3.BoolVal(False)
    s.add(z3.Not(contains(b'"@rx ')), z3.Not(contains(b'"!@rx ')))
    t=time.time(); r=s.check(); print('outside known class:',r,'%.1fs'%(time.time()-t))
    if r==z3.sat:
        mo=s.model(); L=mo.eval(rl).as_long(); print('R2 =',bytes(mo.eval(R[i],model_completion=True).as_long() for i in range(L)))
