"""Throwaway reference interpreter ('plain reading') -> regex TEXT, to calibrate the C01 oracle."""
import re, sys, subprocess, json
CFG={'anti_evasion':{'unix':r'''[\x5c'\"\[]*(?:\$[a-z0-9_@?!#{*-]*)?(?:\x5c)?''','windows':r'''[\"\^]*'''},
     'anti_evasion_suffix':{'unix':r'''(?:[\s<>&|),]|$)''','windows':r'''[\s,;./<>]'''},
     'anti_evasion_no_space_suffix':{'unix':r'''(?:[<>&|),]|$)''','windows':r'''[,;./<>]'''}}
def pat(kind,shell): return CFG[kind][shell].strip()
def cmdword(w,shell):
    if w.startswith("'"): return w[1:]
    E=pat('anti_evasion',shell); suf=''
    if len(w)>=2:
        bs=len(w[:-1])-len(w[:-1].rstrip('\\'))
        if bs%2==1: w=w[:-2]+w[-1]
        elif w[-1]=='@': suf=pat('anti_evasion_suffix',shell); w=w[:-1]
        elif w[-1]=='~': suf=pat('anti_evasion_no_space_suffix',shell); w=w[:-1]
    esc={'.':r'\.','-':r'\-',' ':r'\s+'}
    out=E.join(esc.get(c,c) for c in w)
    if suf: out+=E+suf
    return out
def grp(x): return '(?:'+x+')'
def interp(text):
    lines=[l.lstrip(' \t') for l in text.split('\n')]
    defs={}; flags=''; pre=[]; suf=[]; body=[]
    for l in lines:
        m=re.match(r'^##!>\s*define\s+([a-zA-Z0-9-_]+)\s+(\S+)\s*$',l)
        if m: defs[m.group(1)]=m.group(2); continue
        body.append(l)
    def expand(s):
        for _ in range(10):
            n=re.sub(r'\{\{([a-zA-Z0-9-_]+)\}\}', lambda m: defs.get(m.group(1),m.group(0)), s)
            if n==s: break
            s=n
        return s
    body=[expand(l) for l in body]
    stash={}
    pos=[0]
    def block(kind,shell=None):
        segs=[]; cur=[]; acc=''     # acc = concatenation so far (text), cur = entries of current segment
        def flush():
            nonlocal acc,cur
            if cur: acc+=grp('|'.join(cur)); cur=[]
        while pos[0]<len(body):
            l=body[pos[0]]; pos[0]+=1
            if l.strip()=='' : continue
            if re.match(r'^##!\+',l) or re.match(r'^##!\^',l) or re.match(r'^##!\$',l): 
                continue
            if re.match(r'^\s*##!(?:[^^$+><=]|$)',l): continue
            m=re.match(r'^##!>\s*(assemble|cmdline)\s*(\S+)?',l)
            if m:
                r=block(m.group(1),m.group(2))
                if r!='': cur.append(r if kind=='assemble' else r)
                continue
            if re.match(r'^##!<',l): break
            if kind=='assemble':
                m=re.match(r'^##!=<\s*(.*)$',l)
                if m: flush(); stash[m.group(1)]=acc; acc=''; continue
                m=re.match(r'^##!=>\s*(.*)$',l)
                if m:
                    flush()
                    if m.group(1): acc+=stash[m.group(1)]
                    continue
                cur.append(grp(l))
            else:
                cur.append(grp(cmdword(l,shell)))
        flush()
        return grp(acc) if acc else ''
    for l in body:
        m=re.match(r'^##!\+\s*(.*\S)\s*$',l); 
        if m: flags=''.join(sorted(set(flags+m.group(1))))
        m=re.match(r'^##!\^\s*(.*\S)\s*$',l)
        if m: pre.append(m.group(1))
        m=re.match(r'^##!\$\s*(.*\S)\s*$',l)
        if m: suf.append(m.group(1))
    r=block('assemble')
    if r=='': return ''
    r=''.join(pre)+r+''.join(suf)
    return ('(?'+flags+')' if flags else '')+r
if __name__=='__main__':
    progs=[p for p in open(sys.argv[1]).read().split('\n====\n') if p.strip()]
    for i,p in enumerate(progs):
        p=p.strip('\n')+'\n'
        out=subprocess.run(['/tmp/probe/crs','-d','/tmp/probe/root','regex','generate','-'],input=p,capture_output=True,text=True)
        real=out.stdout
        try: ref=interp(p)
        except Exception as e: ref='<<ref error %r>>'%e
        tag='?'
        if out.returncode!=0: tag='EXIT%d'%out.returncode
        elif real=='' and ref=='': tag='both-empty'
        else:
            smt=subprocess.run(['/tmp/verif-probe/rx2smt'],input=real+'\n'+ref+'\n',capture_output=True,text=True)
            if smt.returncode!=0: tag='XLATE-ERR '+smt.stderr.strip().split('\n')[-1][:80] if smt.stderr.strip() else 'XLATE-ERR'
            else:
                open('/tmp/verif-probe/q.smt2','w').write(smt.stdout)
                try:
                    z=subprocess.run(['z3-new','/tmp/verif-probe/q.smt2'],capture_output=True,text=True,timeout=60)
                    first=z.stdout.split('\n')[0]
                    tag={'unsat':'EQUAL','sat':'DIFF '+z.stdout.split('\n')[1][:60]}.get(first,first)
                except subprocess.TimeoutExpired: tag='TIMEOUT'
        print(f'[{i:02d}] {tag:12s} | {p.strip()!r:60.60s} | real={real[:50]!r} ref={ref[:60]!r}')
