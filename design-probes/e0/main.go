package main

import (
	"fmt"
	"go/constant"
	"os"
	"time"

	"golang.org/x/tools/go/packages"
	"golang.org/x/tools/go/ssa"
	"golang.org/x/tools/go/ssa/ssautil"
)

const harness = `//go:build verif
package operators

import "strings"

func nondetString(max int) string { return "" }
func nondetInt() int              { return 0 }
func assume(b bool)               {}

func VerifC19FindGroupBodyEnd() {
	s := nondetString(16)
	start := nondetInt()
	assume(0 <= start && start <= len(s))
	o := &Operator{groupReplacementStringBuilder: &strings.Builder{}}
	o.findGroupBodyEnd(s, start)
	_ = o.dontUseFlagsForMetaCharacters(s)
}
`

func main() {
	t0 := time.Now()
	cfg := &packages.Config{
		Mode:       packages.LoadAllSyntax,
		Dir:        "/repo",
		BuildFlags: []string{"-tags=verif", "-mod=mod"},
		Overlay:    map[string][]byte{"/repo/regex/operators/zz_verif_c19.go": []byte(harness)},
		Env:        append(os.Environ(), "GOFLAGS=-mod=mod", "GOPROXY=off", "GOSUMDB=off", "GOTOOLCHAIN=local"),
	}
	pkgs, err := packages.Load(cfg, "./...")
	if err != nil { panic(err) }
	if packages.PrintErrors(pkgs) > 0 { os.Exit(1) }
	fmt.Printf("loaded %d pkgs in %v\n", len(pkgs), time.Since(t0))
	prog, spkgs := ssautil.AllPackages(pkgs, ssa.InstantiateGenerics)
	prog.Build()
	fmt.Printf("ssa built in %v\n", time.Since(t0))
	for _, p := range spkgs {
		if p == nil { continue }
		switch p.Pkg.Path() {
		case "github.com/coreruleset/crs-toolchain/v2/regex/operators":
			f := p.Func("VerifC19FindGroupBodyEnd")
			fmt.Println("harness found:", f != nil)
			for _, b := range f.Blocks { for _, in := range b.Instrs {
				if c, ok := in.(ssa.CallInstruction); ok { if cal := c.Common().StaticCallee(); cal != nil { fmt.Println("  calls", cal.String(), "blocks:", len(cal.Blocks)) } }
			} }
		case "github.com/coreruleset/crs-toolchain/v2/regex":
			init := p.Func("init")
			n := 0
			for _, b := range init.Blocks { for i, in := range b.Instrs {
				call, ok := in.(*ssa.Call); if !ok { continue }
				cal := call.Call.StaticCallee(); if cal == nil || cal.String() != "regexp.MustCompile" { continue }
				c, ok := call.Call.Args[0].(*ssa.Const); if !ok { continue }
				// next store tells the global
				for _, in2 := range b.Instrs[i+1:] { if st, ok := in2.(*ssa.Store); ok && st.Val == call { if g, ok := st.Addr.(*ssa.Global); ok { n++; if n <= 4 { fmt.Printf("  %s = %q\n", g.Name(), constant.StringVal(c.Value)) } }; break } }
			} }
			fmt.Println("regex globals with constant patterns:", n)
		}
	}
	// dependency constant: semver validation regex
	for _, p := range prog.AllPackages() {
		if p.Pkg.Path() == "github.com/Masterminds/semver/v3" {
			if c, ok := p.Members["semVerRegex"].(*ssa.NamedConst); ok {
				fmt.Printf("semVerRegex const len=%d\n", len(constant.StringVal(c.Value.Value)))
			}
		}
	}
}
