import sys, time, z3
from pike import load_progs, match, Sym
from symstr import *
N=int(sys.argv[1]); which=sys.argv[2] if len(sys.argv)>2 else 'idem'
PAT=dict(
 blockStart=r'^##!>\s*(assemble|cmdline)\s*(\S+)?', blockEnd=r'^##!<',
 flags=r'^##!\+\s*(.*\S)\s*$', prefix=r'^##!\^\s*(.*\S)\s*$', suffix=r'^##!\$\s*(.*\S)\s*$',
 definition=r'^(##!>\s*define\s+([a-zA-Z0-9-_]+)\s+)(\S+)\s*$',
 include=r'##!>\s*include\s+(\S+)(?:\s*--\s*(.*?))?\s*$',
 includeExcept=r'^##!>\s*include-except\s+(\S+)\s*(.*?)(?:\s*--\s*(.*?))?\s*$')
names=list(PAT); progs=dict(zip(names,load_progs([PAT[n] for n in names]))); A=Sym()
def M(name,s):
    m,c=match(A,progs[name],[s.at(p) for p in range(s.cap)],s.ln,s.cap); return m,c
def grp(s,c,k): return substr(s,c[2*k],c[2*k+1]), c[2*k]!=255
def trimleft(s):
    # number of leading space/tab bytes
    k=B8(0); still=z3.BoolVal(True)
    for p in range(s.cap):
        isws=z3.And(z3.ULT(p,s.ln), z3.Or(s.b[p]==32,s.b[p]==9)); still=z3.And(still,isws); k=z3.If(still,B8(p+1),k)
    return substr(s,k,s.ln)
def process_line(line,indent):
    """mirror of cmd.processLine (prototype, hand-written): returns (out, nextIndent, err)"""
    t=trimleft(line); empty=t.ln==0; line=t
    C=S.const
    ms={n:M(n,line) for n in names}
    # candidates
    g1,_=grp(line,ms['blockStart'][1],1); g2,has2=grp(line,ms['blockStart'][1],2)
    bs=ite(z3.And(has2,g2.ln!=0), concat_all([C('##!> '),g1,C(' '),g2]), concat(C('##!> '),g1))
    fl=concat(C('##!+ '),grp(line,ms['flags'][1],1)[0]); pf=concat(C('##!^ '),grp(line,ms['prefix'][1],1)[0]); sf=concat(C('##!$ '),grp(line,ms['suffix'][1],1)[0])
    d=concat_all([C('##!> define '),grp(line,ms['definition'][1],2)[0],C(' '),grp(line,ms['definition'][1],3)[0]])
    i1,_=grp(line,ms['include'][1],1); i2,hi2=grp(line,ms['include'][1],2)
    inc=ite(z3.And(hi2,i2.ln!=0), concat_all([C('##!> include '),i1,C(' -- '),i2]), concat(C('##!> include '),i1))
    e1,_=grp(line,ms['includeExcept'][1],1); e2,_=grp(line,ms['includeExcept'][1],2); e3,he3=grp(line,ms['includeExcept'][1],3)
    ie0=concat_all([C('##!> include-except '),e1,C(' '),e2]); ie=ite(z3.And(he3,e3.ln!=0), concat_all([ie0,C(' -- '),e3]), ie0)
    order=[('blockStart',bs),('blockEnd',t),('flags',fl),('prefix',pf),('suffix',sf),('definition',d),('include',inc),('includeExcept',ie)]
    body=t; kind=z3.IntVal(0); taken=z3.BoolVal(False)
    sel=[]
    for idx,(n,cand) in enumerate(order):
        here=z3.And(z3.Not(taken),ms[n][0]); sel.append(here); taken=z3.Or(taken,ms[n][0])
    CAP=line.cap+16
    for (n,cand),here in reversed(list(zip(order,sel))): body=ite(here,trunc(cand,CAP) if cand.cap>CAP else cand,body)
    isStart,isEnd=sel[0],sel[1]; zeroInd=z3.Or(sel[2],sel[3],sel[4])
    err=z3.And(z3.Not(empty),isEnd,indent==0)
    blockIndent=z3.If(isEnd,indent-1,z3.If(zeroInd,B8(0),indent)); nextIndent=z3.If(isStart,indent+1,z3.If(isEnd,indent-1,indent))
    pad=S([B8(32)]*6, blockIndent*2, 6)
    out=concat(pad,body)
    out=ite(empty,t,out); nextIndent=z3.If(empty,indent,nextIndent)
    process_line.sel=dict(zip([n for n,_ in order],sel)); process_line.none=z3.Not(taken)
    return out,nextIndent,err
line=S.fresh('l',N); ind=z3.BitVec('ind',8)
s=z3.Solver(); s.add(z3.ULE(line.ln,N), z3.ULE(ind,2))
for p in range(N): s.add(z3.ULE(line.b[p],126), z3.Or(z3.UGE(line.b[p],32),line.b[p]==9), line.b[p]!=10)
EXCL=[x for x in sys.argv[3].split(',') if x] if len(sys.argv)>3 else []
tl=trimleft(line)
for n in EXCL: s.add(z3.Not(M(n,tl)[0]))
t0=time.time(); o1,n1,e1=process_line(line,ind)
CASE=sys.argv[4] if len(sys.argv)>4 else None
if CASE: s.add(process_line.none if CASE=='none' else process_line.sel[CASE])
CAP2=N+10; s.add(z3.ULE(o1.ln,CAP2))  # (would be an unwinding-style assertion in the real tool)
o1t=trunc(o1,CAP2)
if which=='idem':
    o2,n2,e2=process_line(o1t,ind); print('encode %.1fs'%(time.time()-t0))
    s.add(z3.Not(e1)); s.add(z3.Not(z3.And(eq(o2,o1t), n2==n1, z3.Not(e2))))
else:   # stripWS equality: compare non-whitespace byte sequences via counting filter
    def strip(sx):
        out=[B8(0)]*sx.cap; k=B8(0)
        for p in range(sx.cap):
            keep=z3.And(z3.ULT(p,sx.ln), sx.at(p)!=32, sx.at(p)!=9)
            out=[z3.If(z3.And(keep,k==q),sx.at(p),out[q]) for q in range(sx.cap)]; k=z3.If(keep,k+1,k)
        return S(out,k,sx.cap)
    print('encode %.1fs'%(time.time()-t0)); s.add(z3.Not(e1)); s.add(z3.Not(eq(strip(line),strip(o1t))))
t0=time.time(); r=s.check(); print(which,'violated:',r,'%.1fs'%(time.time()-t0))
if r==z3.sat:
    m=s.model(); print('line=',value(m,line),'indent=',m.eval(ind),'->',value(m,o1t))
    if which=='idem': print('second  ->',value(m,o2))
