"""Lightweight hash-consed term layer with a z3py-compatible surface (the subset the engine uses).
Terms are built ~100x faster than through the z3 Python API, folded/simplified at construction,
serialised to SMT-LIB2 (QF_BV) for z3 / cvc5, and can be evaluated concretely under a model
(used for model extraction and for the encoder self-check)."""
import os
import itertools
import subprocess
import time

import z3 as _z3

_table = {}
_ids = itertools.count(1)


class ExprRef:
    __slots__ = ('op', 'args', 'srt', 'id', 'p')

    def __init__(self, op, args, srt, p=None):
        self.op = op
        self.args = args
        self.srt = srt      # 0 = Bool, n = BitVec n
        self.p = p          # parameters (extract hi/lo, ext amount, var name, const value)
        self.id = next(_ids)

    def get_id(self):
        return self.id

    def size(self):
        return self.srt

    def arg(self, i):
        return self.args[i]

    def __hash__(self):
        return self.id

    def __bool__(self):
        raise TypeError('symbolic term used as Python bool: %s' % self.op)

    def __repr__(self):
        return to_str(self, 3)

    # arithmetic / comparison operators (signed semantics for < <= > >= and >>, like z3py)
    def __eq__(self, o):
        return Eq(self, o)

    def __ne__(self, o):
        return Not(Eq(self, o))

    def __add__(self, o):
        return _bin('bvadd', self, o)

    def __radd__(self, o):
        return _bin('bvadd', o, self)

    def __sub__(self, o):
        return _bin('bvsub', self, o)

    def __rsub__(self, o):
        return _bin('bvsub', o, self)

    def __mul__(self, o):
        return _bin('bvmul', self, o)

    def __rmul__(self, o):
        return _bin('bvmul', o, self)

    def __and__(self, o):
        return _bin('bvand', self, o)

    def __rand__(self, o):
        return _bin('bvand', o, self)

    def __or__(self, o):
        return _bin('bvor', self, o)

    def __ror__(self, o):
        return _bin('bvor', o, self)

    def __xor__(self, o):
        return _bin('bvxor', self, o)

    def __rxor__(self, o):
        return _bin('bvxor', o, self)

    def __invert__(self):
        return _un('bvnot', self)

    def __neg__(self):
        return _bin('bvsub', 0, self)

    def __lshift__(self, o):
        return _bin('bvshl', self, o)

    def __rshift__(self, o):
        return _bin('bvashr', self, o)

    def __truediv__(self, o):
        return _bin('bvsdiv', self, o)

    def __lt__(self, o):
        return _cmp('bvslt', self, o)

    def __le__(self, o):
        return _cmp('bvsle', self, o)

    def __gt__(self, o):
        return _cmp('bvslt', o, self)

    def __ge__(self, o):
        return _cmp('bvsle', o, self)


BitVecRef = ExprRef
BoolRef = ExprRef


def _mk(op, args, srt, p=None):
    key = (op, tuple(a.id for a in args), srt, p)
    t = _table.get(key)
    if t is None:
        t = _table[key] = ExprRef(op, args, srt, p)
    return t


def reset():
    _table.clear()
    _CT.clear()
    _L1.clear()
    _CMP.clear()


TRUE = True      # boolean constants are the Python singletons
FALSE = False


def BoolVal(b):
    return bool(b)


def BitVecVal(v, bits):
    return _mk('bv', (), bits, v & ((1 << bits) - 1))


def BitVec(name, bits):
    return _mk('var', (), bits, name)


def Bool(name):
    return _mk('var', (), 0, name)


def is_true(t):
    return t is TRUE


def is_false(t):
    return t is FALSE


def is_bool(t):
    return isinstance(t, bool) or (isinstance(t, ExprRef) and t.srt == 0)


def is_not(t):
    return isinstance(t, ExprRef) and t.op == 'not'


def _isc(t):
    return t.op == 'bv'


def _co(a, b):
    """coerce python ints against a term"""
    if isinstance(a, bool) and isinstance(b, bool):
        return a, b
    if isinstance(a, bool) or isinstance(b, bool):
        return a, b
    if isinstance(a, ExprRef):
        if not isinstance(b, ExprRef):
            if isinstance(b, bool):
                b = BoolVal(b)
            else:
                b = BitVecVal(b, a.srt)
    else:
        if isinstance(a, bool):
            a = BoolVal(a)
        else:
            a = BitVecVal(a, b.srt)
    if a.srt != b.srt:
        raise TypeError('sort mismatch %s vs %s in %s / %s' % (a.srt, b.srt, to_str(a, 2), to_str(b, 2)))
    return a, b


def _isb(x):
    return isinstance(x, bool)


def _s(v, n):
    return v - (1 << n) if v >> (n - 1) else v


_FOLD = {
    'bvadd': lambda a, b, n: a + b, 'bvsub': lambda a, b, n: a - b, 'bvmul': lambda a, b, n: a * b,
    'bvand': lambda a, b, n: a & b, 'bvor': lambda a, b, n: a | b, 'bvxor': lambda a, b, n: a ^ b,
    'bvshl': lambda a, b, n: (a << b) if b < n else 0,
    'bvlshr': lambda a, b, n: (a >> b) if b < n else 0,
    'bvashr': lambda a, b, n: (_s(a, n) >> min(b, n)),
    'bvudiv': lambda a, b, n: (a // b) if b else (1 << n) - 1,
    'bvurem': lambda a, b, n: (a % b) if b else a,
    'bvsdiv': lambda a, b, n: _sdiv(a, b, n), 'bvsrem': lambda a, b, n: _srem(a, b, n),
}


def _sdiv(a, b, n):
    a, b = _s(a, n), _s(b, n)
    if b == 0:
        return -1 if a >= 0 else 1
    q = abs(a) // abs(b)
    return q if (a < 0) == (b < 0) else -q


def _srem(a, b, n):
    a, b = _s(a, n), _s(b, n)
    if b == 0:
        return a
    r = abs(a) % abs(b)
    return r if a >= 0 else -r


_CT = {}
CT_MAX = 64     # largest leaf product that is lifted through two constant trees
CT_BIG = 200 if os.environ.get('VERIF_COMPACT') else 64    # largest constant tree that is still recognised as one (value sets, compaction)
# Compaction of constant trees by distinct value (round 2) is OFF by default: it rescued an encoding with position
# arithmetic (`s[searchStart:]`, `searchStart + loc[0]`) that no longer exists in /repo, and it slows down the whole-file
# jobs of C09 (>900 s instead of 50 s) and the C02 flag-group lemma (113 s instead of 35 s). VERIF_COMPACT=1 turns it on.
COMPACT = bool(os.environ.get('VERIF_COMPACT'))
COMPACT_ITE = COMPACT
CT_VALS = 40    # compaction / value-wise arithmetic only for terms with at most this many distinct values (positions, not bytes)


def _ctree(t):
    """number of constant leaves if t is a tree of ite nodes over constants (<= CT_BIG leaves), else 0"""
    r = _CT.get(t.id)
    if r is not None:
        return r
    stack = [t]
    while stack:
        x = stack[-1]
        if x.id in _CT:
            stack.pop()
            continue
        if x.op == 'bv':
            _CT[x.id] = 1
            stack.pop()
        elif x.op == 'ite':
            a = _CT.get(x.args[1].id)
            if a is None:
                stack.append(x.args[1])
                continue
            if a == 0:
                _CT[x.id] = 0
                stack.pop()
                continue
            b = _CT.get(x.args[2].id)
            if b is None:
                stack.append(x.args[2])
                continue
            _CT[x.id] = (a + b) if (b and a + b <= CT_BIG) else 0
            stack.pop()
        else:
            _CT[x.id] = 0
            stack.pop()
    return _CT[t.id]


def leaves(t):
    """set of possible values of a constant tree (python ints, unsigned), or None"""
    if isinstance(t, int):
        return {t}
    if not _ctree(t):
        return None
    out = set()
    stack = [t]
    seen = set()
    while stack:
        x = stack.pop()
        if x.id in seen:
            continue
        seen.add(x.id)
        if x.op == 'bv':
            out.add(x.p)
        else:
            stack.append(x.args[1])
            stack.append(x.args[2])
    return out


_CMP = {}


def compact(t):
    """constant tree with one leaf per DISTINCT value (a decision list over `t == v` conditions). Arithmetic on positions
    multiplies leaf counts although the set of values stays small (0..len); compaction keeps such terms inside the
    constant-tree fragment, so that value sets (case splits, folding of comparisons) survive."""
    n = _ctree(t)
    if n < 2:
        return t
    r = _CMP.get(t.id)
    if r is not None:
        return r
    vs = sorted(leaves(t))
    if len(vs) >= n or len(vs) > CT_VALS:
        r = t
    else:
        r = BitVecVal(vs[-1], t.srt)
        for v in reversed(vs[:-1]):
            cv = BitVecVal(v, t.srt)
            r = If(_eq_const(t, cv), cv, r)
    _CMP[t.id] = r
    return r


def _eq_const(t, cv):
    """t == cv for a constant tree t of any size, as a condition over the selectors (no compaction: used by it)"""
    return _lift1(lambda leaf: leaf is cv, ('=c', cv.id), t)


def _liftable(ca, cb):
    """both constant trees and cheap enough to lift (small leaf product)"""
    return bool(ca and cb and ca * cb <= CT_MAX)


def _compact2(a, b):
    """both operands compacted when their leaf product is too large; returns operands (possibly unchanged)"""
    if not COMPACT:
        return a, b
    ca, cb = _ctree(a), _ctree(b)
    if ca and cb and not _liftable(ca, cb):
        a2, b2 = compact(a), compact(b)
        if _liftable(_ctree(a2), _ctree(b2)):
            return a2, b2
    return a, b


def _bin_by_values(op, a, b):
    """a op b for two constant trees whose leaf product is too large to lift: computed per pair of VALUES and returned
    as a decision list with one leaf per distinct result (sums of positions have few distinct values)"""
    va, vb = sorted(leaves(a)), sorted(leaves(b))
    if len(va) > CT_VALS or len(vb) > CT_VALS:
        return None
    n = a.srt
    conds = {}
    for x in va:
        ex = _eq_const(a, BitVecVal(x, n))
        for y in vb:
            v = _FOLD[op](x, y, n)
            c = And(ex, _eq_const(b, BitVecVal(y, n)))
            conds[v] = Or(conds[v], c) if v in conds else c
    if len(conds) > CT_BIG:
        return None
    vs = sorted(conds)
    r = BitVecVal(vs[-1], n)
    for v in reversed(vs[:-1]):
        r = If(conds[v], BitVecVal(v, n), r)
    return r


_L1 = {}


def _lift1(f, key, x):
    """apply f (term -> term/bool) at the constant leaves of ctree x"""
    k = (key, x.id)
    r = _L1.get(k)
    if r is None:
        if x.op == 'bv':
            r = f(x)
        else:
            r = If(x.args[0], _lift1(f, key, x.args[1]), _lift1(f, key, x.args[2]))
        _L1[k] = r
    return r


def _lift2(f, key, a, b):
    if a.op == 'ite':
        return _lift1(lambda la: _lift2(f, key, la, b), (key, 'L', b.id), a)
    if b.op == 'ite':
        return _lift1(lambda lb: f(a, lb), (key, 'R', a.id), b)
    return f(a, b)


def _bin(op, a, b):
    a, b = _co(a, b)
    n = a.srt
    if a.op == 'bv' and b.op == 'bv':
        return BitVecVal(_FOLD[op](a.p, b.p, n), n)
    if (a.op == 'ite' or b.op == 'ite') and op in ('bvadd', 'bvsub', 'bvmul', 'bvand', 'bvor'):
        a, b = _compact2(a, b)
        ca, cb = _ctree(a), _ctree(b)
        if COMPACT and ca and cb and not _liftable(ca, cb):
            r = _bin_by_values(op, a, b)
            if r is not None:
                return r
        if _liftable(ca, cb):
            return _lift2(lambda x, y: _bin(op, x, y), op, a, b)
    if op == 'bvadd':
        if a.op == 'bv' and a.p == 0:
            return b
        if b.op == 'bv' and b.p == 0:
            return a
        if a.op == 'bv':
            a, b = b, a
    elif op == 'bvsub':
        if b.op == 'bv' and b.p == 0:
            return a
        if a is b:
            return BitVecVal(0, n)
    elif op == 'bvmul':
        for x, y in ((a, b), (b, a)):
            if x.op == 'bv':
                if x.p == 0:
                    return x
                if x.p == 1:
                    return y
    elif op == 'bvand':
        for x, y in ((a, b), (b, a)):
            if x.op == 'bv':
                if x.p == 0:
                    return x
                if x.p == (1 << n) - 1:
                    return y
    elif op == 'bvor':
        for x, y in ((a, b), (b, a)):
            if x.op == 'bv' and x.p == 0:
                return y
    elif op in ('bvshl', 'bvlshr', 'bvashr'):
        if b.op == 'bv' and b.p == 0:
            return a
    return _mk(op, (a, b), n)


def _un(op, a):
    if a.op == 'bv':
        return BitVecVal(~a.p, a.srt)
    return _mk(op, (a,), a.srt)


_CMPF = {'bvult': lambda a, b, n: a < b, 'bvule': lambda a, b, n: a <= b,
         'bvslt': lambda a, b, n: _s(a, n) < _s(b, n), 'bvsle': lambda a, b, n: _s(a, n) <= _s(b, n)}


def _cmp(op, a, b):
    a, b = _co(a, b)
    if a.op == 'bv' and b.op == 'bv':
        return BoolVal(_CMPF[op](a.p, b.p, a.srt))
    if a.op == 'ite' or b.op == 'ite':
        a, b = _compact2(a, b)
        ca, cb = _ctree(a), _ctree(b)
        if _liftable(ca, cb):
            return _lift2(lambda x, y: _cmp(op, x, y), op, a, b)
    if a is b:
        return BoolVal(op in ('bvule', 'bvsle'))
    if op == 'bvult' and b.op == 'bv' and b.p == 0:
        return FALSE
    if op == 'bvule' and a.op == 'bv' and a.p == 0:
        return TRUE
    return _mk(op, (a, b), 0)


def ULT(a, b):
    return _cmp('bvult', a, b)


def ULE(a, b):
    return _cmp('bvule', a, b)


def UGT(a, b):
    return _cmp('bvult', b, a)


def UGE(a, b):
    return _cmp('bvule', b, a)


def LShR(a, b):
    return _bin('bvlshr', a, b)


def UDiv(a, b):
    return _bin('bvudiv', a, b)


def URem(a, b):
    return _bin('bvurem', a, b)


def SRem(a, b):
    return _bin('bvsrem', a, b)


def Eq(a, b):
    a, b = _co(a, b)
    if a is b:
        return TRUE
    if _isb(a) or _isb(b):
        if _isb(a) and _isb(b):
            return a == b
        if a is TRUE:
            return b
        if b is TRUE:
            return a
        if a is FALSE:
            return Not(b)
        return Not(a)
    if a.srt == 0:
        pass
    elif a.op == 'bv' and b.op == 'bv':
        return FALSE   # distinct constants (hash-consed)
    elif a.op == 'ite' or b.op == 'ite':
        # eq over constant trees folds into a condition over the selectors
        a, b = _compact2(a, b)
        ca, cb = _ctree(a), _ctree(b)
        if _liftable(ca, cb):
            return _lift2(lambda x, y: x is y, '=', a, b)
    if a.id > b.id:
        a, b = b, a
    return _mk('=', (a, b), 0)


def Not(a):
    if not isinstance(a, ExprRef):
        return not a
    if a.op == 'not':
        return a.args[0]
    return _mk('not', (a,), 0)


def _nary(op, xs, unit, zero):
    out = []
    seen = set()
    for x in xs:
        if not isinstance(x, ExprRef):
            if bool(x) == unit:
                continue
            return zero
        if x.op == op:
            for y in x.args:
                if y.id not in seen:
                    seen.add(y.id)
                    out.append(y)
            continue
        if x.id in seen:
            continue
        seen.add(x.id)
        out.append(x)
    if not out:
        return unit
    if len(out) == 1:
        return out[0]
    # x and not x
    for x in out:
        if x.op == 'not' and x.args[0].id in seen:
            return zero
    return _mk(op, tuple(out), 0)


def And(*xs):
    if len(xs) == 1 and isinstance(xs[0], (list, tuple)):
        xs = xs[0]
    return _nary('and', xs, TRUE, FALSE)


def Or(*xs):
    if len(xs) == 1 and isinstance(xs[0], (list, tuple)):
        xs = xs[0]
    return _nary('or', xs, FALSE, TRUE)


def Implies(a, b):
    return Or(Not(a), b)


def If(c, a, b):
    if not isinstance(c, ExprRef):
        return a if c else b
    if not isinstance(a, ExprRef) or not isinstance(b, ExprRef):
        a, b = _co(a, b)
    if a is b:
        return a
    if _isb(a) or _isb(b) or a.srt == 0:
        if _isb(a) and _isb(b):
            return c if a else Not(c)
        if a is TRUE:
            return Or(c, b)
        if a is FALSE:
            return And(Not(c), b)
        if b is TRUE:
            return Or(Not(c), a)
        if b is FALSE:
            return And(c, a)
    if a.srt != b.srt:
        raise TypeError('ite sort mismatch')
    if c.op == 'not':
        c, a, b = c.args[0], b, a
    # ite(c, x, ite(c, y, z)) = ite(c, x, z)
    if b.op == 'ite' and b.args[0] is c:
        b = b.args[2]
    if a.op == 'ite' and a.args[0] is c:
        a = a.args[1]
    if a is b:
        return a
    if a.srt != 0:
        ca, cb = _ctree(a), _ctree(b)
        if COMPACT_ITE and ca and cb and ca + cb > CT_BIG:
            # one leaf per distinct value keeps the merged term a constant tree
            vs = sorted(leaves(a) | leaves(b))
            if len(vs) <= 2 * CT_VALS:
                r = BitVecVal(vs[-1], a.srt)
                for v in reversed(vs[:-1]):
                    cv = BitVecVal(v, a.srt)
                    r = If(If(c, _eq_const(a, cv), _eq_const(b, cv)), cv, r)
                return r
    return _mk('ite', (c, a, b), a.srt)


def Extract(hi, lo, x):
    n = hi - lo + 1
    if x.op == 'bv':
        return BitVecVal(x.p >> lo, n)
    if lo == 0 and n == x.srt:
        return x
    if x.op in ('zext', 'sext') and hi < x.args[0].srt:
        return Extract(hi, lo, x.args[0])
    if x.op == 'ite' and _ctree(x):
        return _lift1(lambda l: Extract(hi, lo, l), ('extract', hi, lo), x)
    return _mk('extract', (x,), n, (hi, lo))


def ZeroExt(k, x):
    if k == 0:
        return x
    if x.op == 'bv':
        return BitVecVal(x.p, x.srt + k)
    if x.op == 'ite' and _ctree(x):
        return _lift1(lambda l: ZeroExt(k, l), ('zext', k), x)
    return _mk('zext', (x,), x.srt + k, k)


def SignExt(k, x):
    if k == 0:
        return x
    if x.op == 'bv':
        return BitVecVal(_s(x.p, x.srt), x.srt + k)
    if x.op == 'ite' and _ctree(x):
        return _lift1(lambda l: SignExt(k, l), ('sext', k), x)
    return _mk('sext', (x,), x.srt + k, k)


def Concat(a, b):
    if a.op == 'bv' and b.op == 'bv':
        return BitVecVal((a.p << b.srt) | b.p, a.srt + b.srt)
    return _mk('concat', (a, b), a.srt + b.srt)


def Distinct(*xs):
    cs = []
    for i in range(len(xs)):
        for j in range(i + 1, len(xs)):
            cs.append(Not(Eq(xs[i], xs[j])))
    return And(*cs)


def simplify(t):
    return t


# ------------------------------------------------------------------ printing / SMT-LIB2
def to_str(t, depth):
    if t.op == 'bv':
        return '#%d[%d]' % (t.p, t.srt)
    if t.op == 'var':
        return str(t.p)
    if t.op in ('true', 'false'):
        return t.op
    if depth == 0:
        return '..'
    return '(%s %s)' % (t.op, ' '.join(to_str(a, depth - 1) for a in t.args))


def _sort(srt):
    return 'Bool' if srt == 0 else '(_ BitVec %d)' % srt


def _sym(name):
    return '|%s|' % name


def topo(roots):
    order = []
    seen = set()
    stack = [(r, False) for r in roots]
    while stack:
        t, done = stack.pop()
        if done:
            order.append(t)
            continue
        if t.id in seen:
            continue
        seen.add(t.id)
        stack.append((t, True))
        for a in t.args:
            if a.id not in seen:
                stack.append((a, False))
    return order


def to_smt2(asserts, logic='QF_BV', produce_models=True):
    order = topo(asserts)
    lines = ['(set-logic %s)' % logic] if logic else []
    names = {}
    decls = []
    defs = []
    for t in order:
        op = t.op
        if op == 'var':
            names[t.id] = _sym(t.p)
            decls.append('(declare-const %s %s)' % (_sym(t.p), _sort(t.srt)))
            continue
        if op == 'bv':
            names[t.id] = '(_ bv%d %d)' % (t.p, t.srt)
            continue
        if op in ('true', 'false'):
            names[t.id] = op
            continue
        a = [names[x.id] for x in t.args]
        if op == 'extract':
            e = '((_ extract %d %d) %s)' % (t.p[0], t.p[1], a[0])
        elif op == 'zext':
            e = '((_ zero_extend %d) %s)' % (t.p, a[0])
        elif op == 'sext':
            e = '((_ sign_extend %d) %s)' % (t.p, a[0])
        else:
            e = '(%s %s)' % (op, ' '.join(a))
        n = 'n%d' % t.id
        names[t.id] = n
        defs.append('(define-fun %s () %s %s)' % (n, _sort(t.srt), e))
    lines += decls
    lines += defs
    for t in asserts:
        lines.append('(assert %s)' % names[t.id])
    return '\n'.join(lines) + '\n'


# ------------------------------------------------------------------ concrete evaluation
def evaluate(roots, env):
    """evaluate terms under env: var name -> int/bool (missing vars default to 0/False)"""
    val = {}
    troots = [r for r in roots if isinstance(r, ExprRef)]
    for t in topo(troots):
        op = t.op
        n = t.srt
        if op == 'var':
            v = env.get(t.p, 0)
            val[t.id] = bool(v) if n == 0 else (int(v) & ((1 << n) - 1))
        elif op == 'bv':
            val[t.id] = t.p
        elif op == 'true':
            val[t.id] = True
        elif op == 'false':
            val[t.id] = False
        else:
            a = [val[x.id] for x in t.args]
            if op == 'ite':
                v = a[1] if a[0] else a[2]
            elif op == 'and':
                v = all(a)
            elif op == 'or':
                v = any(a)
            elif op == 'not':
                v = not a[0]
            elif op == '=':
                v = a[0] == a[1]
            elif op in _CMPF:
                v = _CMPF[op](a[0], a[1], t.args[0].srt)
            elif op in _FOLD:
                v = _FOLD[op](a[0], a[1], n) & ((1 << n) - 1)
            elif op == 'bvnot':
                v = (~a[0]) & ((1 << n) - 1)
            elif op == 'extract':
                v = (a[0] >> t.p[1]) & ((1 << n) - 1)
            elif op == 'zext':
                v = a[0]
            elif op == 'sext':
                v = _s(a[0], t.args[0].srt) & ((1 << n) - 1)
            elif op == 'concat':
                v = (a[0] << t.args[1].srt) | a[1]
            else:
                raise NotImplementedError(op)
            val[t.id] = v
    return [val[r.id] if isinstance(r, ExprRef) else r for r in roots]


class _Val:
    def __init__(self, v, srt):
        self.v = v
        self.srt = srt

    def as_long(self):
        return int(self.v)

    def size(self):
        return self.srt


class Model:
    def __init__(self, env):
        self.env = env

    def eval(self, t, model_completion=True):
        if not isinstance(t, ExprRef):
            return _Val(t, 0 if isinstance(t, bool) else 64)
        v = evaluate([t], self.env)[0]
        if t.srt == 0:
            return bool(v)
        return _Val(v, t.srt)


class CheckResult:
    def __init__(self, s):
        self.s = s

    def __repr__(self):
        return self.s

    def __eq__(self, o):
        return isinstance(o, CheckResult) and o.s == self.s

    def __hash__(self):
        return hash(self.s)


sat = CheckResult('sat')
unsat = CheckResult('unsat')
unknown = CheckResult('unknown')


class Solver:
    """collects assertions; check() ships the SMT-LIB2 text to z3 (in-process, C++ parser)"""

    def __init__(self):
        self.asserts = []
        self.timeout = None
        self._model = None
        self.stats = {}

    def set(self, key, v):
        if key == 'timeout':
            self.timeout = v

    def add(self, *ts):
        for t in ts:
            self.asserts.append(t if isinstance(t, ExprRef) else bool(t))

    def to_smt2(self):
        return to_smt2(self.asserts) + '(check-sat)\n'

    def check(self):
        self._model = None
        if any(t is FALSE for t in self.asserts):
            return unsat
        live = [t for t in self.asserts if t is not TRUE]
        if not live:
            self._model = Model({})
            return sat
        text = to_smt2(live)
        s = _z3.SolverFor('QF_BV')
        if self.timeout:
            s.set('timeout', int(self.timeout))
        s.from_string(text)
        timer = None
        if self.timeout:
            import threading
            # z3's own timeout is not honoured inside some preprocessing steps: interrupt from a watchdog thread
            timer = threading.Timer(self.timeout / 1000.0 + 3, lambda: _z3.main_ctx().interrupt())
            timer.daemon = True
            timer.start()
        try:
            r = s.check()
        finally:
            if timer is not None:
                timer.cancel()
        if r == _z3.sat:
            m = s.model()
            env = {}
            for t in topo(live):
                if t.op != 'var':
                    continue
                if t.srt == 0:
                    env[t.p] = _z3.is_true(m.eval(_z3.Bool(t.p), model_completion=True))
                else:
                    env[t.p] = m.eval(_z3.BitVec(t.p, t.srt), model_completion=True).as_long()
            # self-check: the model must satisfy the assertions under our own evaluator
            vals = evaluate(live, env)
            if not all(vals):
                raise RuntimeError('model returned by the solver does not satisfy the encoding under the internal evaluator')
            self._model = Model(env)
            return sat
        if r == _z3.unsat:
            return unsat
        return unknown

    def model(self):
        return self._model


def external_check(smt2_text, solver, timeout_s=60):
    """re-decide a dumped query with another solver binary: 'z3' (4.8.12), 'z3-new', 'cvc5'"""
    cmd = {'z3': ['z3', '-in', '-T:%d' % timeout_s], 'z3-new': ['z3-new', '-in', '-T:%d' % timeout_s],
           'cvc5': ['cvc5', '--lang=smt2', '--tlimit=%d' % (timeout_s * 1000)]}[solver]
    try:
        r = subprocess.run(cmd, input=smt2_text, capture_output=True, text=True, timeout=timeout_s + 10)
    except subprocess.TimeoutExpired:
        return 'timeout'
    out = r.stdout.strip().splitlines()
    if any('(error' in l for l in out) or not out:
        return 'error'
    return out[0].strip()
