import importlib
import json
import os
import sys

HERE = os.path.dirname(os.path.abspath(__file__))
ROOT = os.path.dirname(HERE)
sys.path.insert(0, HERE)
sys.path.insert(0, os.path.join(ROOT, 'props'))


def main():
    a = sys.argv[1:]
    if a and a[0] == '--replay':
        import propcheck
        d = json.load(open(a[1]))
        ck = propcheck.Check('replay', 'quick')
        model = {}
        for k, v in d['Values'].items():
            model[k] = {'kind': v['Kind'], 'hex': v.get('Hex', ''), 'v': v.get('V', v.get('B'))}
        import runner
        outcome, path = ck.replay(runner.MOD + '/' + d['Package'] + '.' + d['Harness'], model, d.get('Params'))
        print('REPLAY', d['Harness'], '->', outcome)
        ck.cleanup()
        sys.exit(1 if (outcome.startswith('violated') or outcome.startswith('died')) else 0)
    pid = a[0]
    tier = os.environ.get('VERIF_TIER', 'quick')
    if '--tier' in a:
        tier = a[a.index('--tier') + 1]
    mod = importlib.import_module(pid.lower())
    sys.exit(mod.main(tier))


if __name__ == '__main__':
    main()
