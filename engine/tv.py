"""Translation validation support: run programs through the real pipeline (tvrun workers built from /repo's
working tree), build the reference reading of a program, and compare with E3 (rxlang)."""
import json
import os
import re
import shutil
import subprocess
import sys
import tempfile
import threading
import time
from concurrent.futures import ThreadPoolExecutor

HERE = os.path.dirname(os.path.abspath(__file__))
ROOT = os.path.dirname(HERE)
sys.path.insert(0, HERE)
import rxlang

GOENV = dict(os.environ, GOFLAGS='-mod=mod', GOPROXY='off', GOSUMDB='off', GOTOOLCHAIN='local')
REPO = os.environ.get('VERIF_REPO', '/repo')


def build_tvrun(scratch):
    """build the pipeline runner against /repo's current working tree"""
    src = os.path.join(HERE, 'tvrun')
    work = os.path.join(scratch, 'tvrun-src')
    shutil.copytree(src, work)
    gm = open(os.path.join(work, 'go.mod')).read().replace('=> /repo', '=> ' + REPO)
    open(os.path.join(work, 'go.mod'), 'w').write(gm)
    shutil.copy(os.path.join(REPO, 'go.sum'), os.path.join(work, 'go.sum'))
    out = os.path.join(scratch, 'tvrun')
    r = subprocess.run(['go', 'build', '-o', out, '.'], cwd=work, env=GOENV, capture_output=True, text=True)
    if r.returncode != 0:
        raise RuntimeError('tvrun build failed: ' + r.stderr[-3000:])
    return out


class Worker:
    def __init__(self, binary):
        self.binary = binary
        self.p = None

    def start(self):
        self.p = subprocess.Popen([self.binary], stdin=subprocess.PIPE, stdout=subprocess.PIPE, stderr=subprocess.PIPE, text=True, bufsize=1)

    def run(self, job, timeout=20):
        if self.p is None or self.p.poll() is not None:
            self.start()
        res = {}

        def reader():
            try:
                res['line'] = self.p.stdout.readline()
            except Exception as e:  # noqa
                res['line'] = ''
        try:
            self.p.stdin.write(json.dumps(job) + '\n')
            self.p.stdin.flush()
        except BrokenPipeError:
            pass
        t = threading.Thread(target=reader, daemon=True)
        t.start()
        t.join(timeout)
        if t.is_alive():
            self.p.kill()
            self.p.wait()
            self.p = None
            return {'id': job['id'], 'hang': True}
        line = res.get('line', '')
        if not line:
            # worker died: collect status and stderr
            try:
                self.p.wait(5)
            except Exception:
                self.p.kill()
            err = ''
            try:
                err = self.p.stderr.read()[-1500:]
            except Exception:
                pass
            rc = self.p.returncode
            self.p = None
            return {'id': job['id'], 'died': True, 'rc': rc, 'stderr': err}
        return json.loads(line)

    def close(self):
        if self.p is not None and self.p.poll() is None:
            try:
                self.p.stdin.close()
                self.p.wait(2)
            except Exception:
                self.p.kill()


def run_programs(binary, jobs, nworkers=12):
    """jobs: list of dicts (files, src, runs). returns results in order."""
    for i, j in enumerate(jobs):
        j['id'] = i
    results = [None] * len(jobs)
    lock = threading.Lock()
    idx = [0]

    def loop():
        w = Worker(binary)
        while True:
            with lock:
                i = idx[0]
                idx[0] += 1
            if i >= len(jobs):
                break
            results[i] = w.run(jobs[i])
        w.close()
    ts = [threading.Thread(target=loop) for _ in range(min(nworkers, max(1, len(jobs))))]
    for t in ts:
        t.start()
    for t in ts:
        t.join()
    return results


def decide_many(queries, nworkers=14, timeout_s=30):
    """queries: list of smt2 texts -> list of (verdict, witness, seconds)"""
    with ThreadPoolExecutor(max_workers=nworkers) as ex:
        return list(ex.map(lambda q: rxlang.decide(q, timeout_s) if q is not None else ('skip', None, 0.0), queries))


# ------------------------------------------------------------------ reference reading of the DSL
class RefError(Exception):
    pass


def grp(x):
    return '(?:' + x + ')'


def cmdword(w, shell, cfg):
    """the documented expansion of one cmdline word"""
    if w.startswith("'"):
        return w[1:]
    E = cfg.get('anti_evasion', {}).get(shell, '')
    suf = ''
    if len(w) >= 2:
        head = w[:-1]
        bs = len(head) - len(head.rstrip('\\'))
        if bs % 2 == 1:
            w = w[:-2] + w[-1]
        elif w[-1] == '@':
            suf = cfg.get('anti_evasion_suffix', {}).get(shell, '')
            w = w[:-1]
        elif w[-1] == '~':
            suf = cfg.get('anti_evasion_no_space_suffix', {}).get(shell, '')
            w = w[:-1]
    esc = {'.': r'\.', '-': r'\-', ' ': r'\s+'}
    out = E.join(esc.get(c, c) for c in w)
    if suf:
        out += E + suf
    return out


DEF_RE = re.compile(r'^##!>\s*define\s+([a-zA-Z0-9-_]+)\s+(\S+)\s*$')
REF_RE = re.compile(r'\{\{([a-zA-Z0-9-_]+)\}\}')


def expand_defs(lines):
    """definitions are textual substitution, independent of their order; definition lines contribute nothing"""
    defs = {}
    body = []
    for l in lines:
        m = DEF_RE.match(l)
        if m:
            defs.setdefault(m.group(1), m.group(2))
        else:
            body.append(l)

    def expand(s, depth=0):
        if depth > 20:
            raise RefError('cyclic definitions')
        return REF_RE.sub(lambda m: expand(defs[m.group(1)], depth + 1) if m.group(1) in defs else m.group(0), s)
    return [expand(l) for l in body]


def find_file(name, files):
    if not name.endswith('.ra'):
        name += '.ra'
    for d in ('regex-assembly/include/', 'regex-assembly/exclude/'):
        if d + name in files:
            return files[d + name]
    raise RefError('missing include ' + name)


def apply_pairs(entries, pairs):
    """`-- old new` pairs rewrite only entries (never comments/directives/blank lines) that end in old"""
    out = []
    for e in entries:
        if e.startswith('##!') or e.strip() == '':
            out.append(e)
            continue
        for old, new in pairs:
            if e.endswith(old):
                e = e[:len(e) - len(old)] + ('' if new == '""' else new)
        out.append(e)
    return out


def parse_pairs(s):
    if s is None or s.strip() == '':
        return []
    toks = s.split()
    if len(toks) % 2:
        raise RefError('odd replacement list')
    return [(toks[i], toks[i + 1]) for i in range(0, len(toks), 2)]


def inline_includes(text, files, depth=0):
    """replace include / include-except directives by the included entries (own definitions expanded inside the
    file, prefixes/suffixes as a local assemble block, exclusions removed, suffix pairs applied)"""
    if depth > 8:
        raise RefError('include depth')
    out = []
    for l in text.split('\n'):
        t = l.lstrip(' \t')
        m = re.match(r'^##!>\s*include-except\s+(\S+)\s*(.*?)(?:\s*--\s*(.*?))?\s*$', t)
        if m:
            body = include_body(find_file(m.group(1), files), files, depth + 1)
            excl = set()
            for x in m.group(2).split():
                for e in include_body(find_file(x, files), files, depth + 1):
                    excl.add(e)
            seen = set()
            kept = []
            for e in body:
                if e in excl or e in seen:
                    continue
                seen.add(e)
                kept.append(e)
            out += apply_pairs(kept, parse_pairs(m.group(3)))
            continue
        m = re.match(r'^##!>\s*include\s+(\S+)(?:\s*--\s*(.*?))?\s*$', t)
        if not m:
            out.append(l)
            continue
        out += apply_pairs(include_body(find_file(m.group(1), files), files, depth + 1), parse_pairs(m.group(2)))
    return '\n'.join(out)


def include_body(content, files, depth):
    content = inline_includes(content, files, depth)
    lines = [l.lstrip(' \t') for l in content.split('\n')]
    lines = expand_defs(lines)
    pre, suf, flags, body = [], [], False, []
    for l in lines:
        m = re.match(r'^##!\^\s*(.*\S)\s*$', l)
        if m:
            pre.append(m.group(1))
            continue
        m = re.match(r'^##!\$\s*(.*\S)\s*$', l)
        if m:
            suf.append(m.group(1))
            continue
        if re.match(r'^##!\+\s*(.*\S)\s*$', l):
            raise RefError('flags in include file')
        if l.strip() == '' or re.match(r'^\s*##!(?:[^^$+><=]|$)', l):
            continue
        body.append(l)
    if not pre and not suf:
        return body
    blk = ['##!> assemble']
    for p in pre:
        blk += [p, '##!=>']
    blk += body
    if suf:
        blk.append('##!=>')
    for s in suf:
        blk += [s, '##!=>']
    blk.append('##!<')
    return blk


def reference(text, files=None, cfg=None):
    """regex TEXT of the plain reading of an assembly program (each entry parsed on its own as a unit)"""
    files = files or {}
    cfg = cfg or {}
    text = inline_includes(text, files)
    lines = [l.lstrip(' \t') for l in text.split('\n')]
    body = expand_defs(lines)
    flags = ''
    pre, suf = [], []
    for l in body:
        m = re.match(r'^##!\+\s*(.*\S)\s*$', l)
        if m:
            flags = ''.join(sorted(set(flags + m.group(1))))
        m = re.match(r'^##!\^\s*(.*\S)\s*$', l)
        if m:
            pre.append(m.group(1))
        m = re.match(r'^##!\$\s*(.*\S)\s*$', l)
        if m:
            suf.append(m.group(1))
    stash = {}
    pos = [0]

    def block(kind, shell=None):
        cur = []
        acc = ''

        def flush():
            nonlocal acc, cur
            if cur:
                acc += grp('|'.join(cur))
                cur = []
        while pos[0] < len(body):
            l = body[pos[0]]
            pos[0] += 1
            if l.strip() == '':
                continue
            if re.match(r'^##!\+', l) or re.match(r'^##!\^', l) or re.match(r'^##!\$', l):
                continue
            if re.match(r'^\s*##!(?:[^^$+><=]|$)', l):
                continue
            m = re.match(r'^##!>\s*(assemble|cmdline)\s*(\S+)?', l)
            if m:
                r = block(m.group(1), m.group(2))
                if r != '':
                    cur.append(r)
                continue
            if re.match(r'^##!<', l):
                break
            if kind == 'assemble':
                m = re.match(r'^##!=<\s*(.*)$', l)
                if m:
                    flush()
                    stash[m.group(1)] = acc
                    acc = ''
                    continue
                m = re.match(r'^##!=>\s*(.*)$', l)
                if m:
                    flush()
                    if m.group(1):
                        if m.group(1) not in stash:
                            raise RefError('unknown stored name')
                        acc += stash[m.group(1)]
                    continue
                cur.append(grp(l))
            else:
                cur.append(grp(cmdword(l, shell, cfg)))
        flush()
        return grp(acc) if acc else ''
    r = block('assemble')
    if r == '':
        return ''
    r = ''.join(pre) + r + ''.join(suf)
    return ('(?' + flags + ')' if flags else '') + r


def compare_programs(binary, progs, timeout_s=30, nworkers=14):
    """progs: list of dict(src, files, cfg, ref (optional regex text to compare with instead of reference(src)))
    returns list of dict(status, out, ref, witness, seconds)"""
    jobs = [{'files': p.get('files') or {}, 'src': p['src'], 'runs': p.get('runs', 1)} for p in progs]
    res = run_programs(binary, jobs)
    queries = []
    rows = []
    for p, r in zip(progs, res):
        row = {'src': p['src'], 'files': p.get('files') or {}, 'tags': p.get('tags', [])}
        rows.append(row)
        if r.get('died') or r.get('hang'):
            row.update(status='died' if r.get('died') else 'hang', detail=(r.get('stderr') or '')[-400:], rc=r.get('rc'))
            queries.append(None)
            continue
        row['out'] = r.get('out', '')
        row['err'] = r.get('err')
        row['outs'] = r.get('outs')
        try:
            ref = p['ref'] if 'ref' in p else reference(p['src'], p.get('files'), p.get('cfg'))
        except RefError as e:
            row.update(status='ref-rejects', detail=str(e))
            queries.append(None)
            continue
        row['ref'] = ref
        if r.get('err'):
            # the pipeline rejects the program: that is agreement when the reference reading is not a valid RE2 expression either
            a = rxlang.parse_many([ref])[0] if ref else None
            if isinstance(a, dict) and a.get('error'):
                row['status'] = 'equal'
                row['detail'] = 'both reject: ' + a['error']
            else:
                row['status'] = 'error'
            queries.append(None)
            continue
        if ref == '' or row['out'] == '':
            row['status'] = 'equal' if ref == row['out'] else 'differ-empty'
            queries.append(None)
            continue
        try:
            queries.append(rxlang.query('equiv', rxlang.search_lang(row['out']), rxlang.search_lang(ref)))
        except rxlang.Unsupported as e:
            row.update(status='untranslatable', detail=str(e))
            queries.append(None)
    verdicts = decide_many(queries, nworkers, timeout_s)
    for row, q, v in zip(rows, queries, verdicts):
        if q is None:
            continue
        row['seconds'] = round(v[2], 3)
        if v[0] == 'unsat':
            row['status'] = 'equal'
        elif v[0] == 'sat':
            row['status'] = 'differ'
            row['witness'] = v[1]
        else:
            row['status'] = 'unknown'
            row['detail'] = str(v[1])[:200]
    return rows
