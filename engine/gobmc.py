"""E1: bounded model checker for Go SSA (as dumped by ssadump), merged-path (CBMC style).

exec model
  * a function is executed as an unrolled DAG of (block, iteration-vector) nodes in a
    topological order; states reaching the same node are merged with ite
  * calls to module functions are inlined; library calls go to intrinsics (intrinsics.py)
  * every potential runtime panic is recorded as an obligation (guard /\\ not safe)
  * loops are unrolled to a bound; exceeding it is recorded as an 'unwind' obligation
"""
import heapq
import itertools
import json
import sys
import zz as z3
from sym import *

sys.setrecursionlimit(20000)


import os
TRACE = bool(os.environ.get('VERIF_TRACE'))


class Unsupported(Exception):
    pass


class PathDead(Exception):
    """current guard became false (e.g. after a terminal call)"""


# ------------------------------------------------------------------ values
class Ptr:
    __slots__ = ('obj', 'path')

    def __init__(self, obj, path=()):
        self.obj = obj      # heap key or None (nil)
        self.path = path

    def __repr__(self):
        return 'Ptr(%s%s)' % (self.obj, ''.join('.%s' % (p,) for p in self.path))


NIL = Ptr(None)


class BytePtr:
    """read-only pointer to an element of an (immutable) byte slice value"""
    __slots__ = ('s', 'i')

    def __init__(self, s, i):
        self.s = s
        self.i = i


class StructV:
    __slots__ = ('f',)

    def __init__(self, f):
        self.f = f  # list of values

    def __repr__(self):
        return 'Struct%r' % (self.f,)


class ArrayV:
    __slots__ = ('e',)

    def __init__(self, e):
        self.e = e


class SliceV:
    """slice of non-byte elements: backing array object in the heap"""
    __slots__ = ('arr', 'off', 'ln', 'cap', 'isnil')

    def __init__(self, arr, off, ln, cap, isnil=None):
        self.arr = arr   # heap key of ArrayV or None for nil slice
        self.off = off   # concrete
        self.ln = ln     # int or BV64
        self.cap = cap   # concrete
        self.isnil = (arr is None) if isnil is None else isnil   # bool or z3 Bool: slice == nil

    def __repr__(self):
        return 'Slice(%s+%s,len=%s,cap=%s)' % (self.arr, self.off, self.ln if is_c(self.ln) else 'sym', self.cap)


NILSLICE = SliceV(None, 0, 0, 0)


class MapV:
    """map object stored in heap: entries [present, key, val]"""
    __slots__ = ('entries',)

    def __init__(self, entries):
        self.entries = entries


class IfaceV:
    __slots__ = ('t', 'v')

    def __init__(self, t, v):
        self.t = t  # dynamic type key, None for nil interface
        self.v = v

    def __repr__(self):
        return 'Iface(%s,%r)' % (self.t, self.v)


NILIFACE = IfaceV(None, None)


class FuncV:
    __slots__ = ('fn', 'bind')

    def __init__(self, fn, bind=()):
        self.fn = fn       # function name or None (nil func)
        self.bind = bind

    def __repr__(self):
        return 'Func(%s)' % self.fn


class LibV:
    """library object with a Python-level model (Builder, Buffer, Scanner, Regexp, ...)"""
    __slots__ = ('kind', 'd')

    def __init__(self, kind, **d):
        self.kind = kind
        self.d = d

    def with_(self, **kw):
        d = dict(self.d)
        d.update(kw)
        return LibV(self.kind, **d)

    def __repr__(self):
        return 'Lib(%s)' % self.kind


class OpaqueV:
    __slots__ = ('tag',)

    def __init__(self, tag):
        self.tag = tag

    def __repr__(self):
        return 'Opaque(%s)' % self.tag


class ChoiceV:
    """guarded alternatives of values that cannot be merged structurally"""
    __slots__ = ('alts',)

    def __init__(self, alts):
        self.alts = alts  # [(guard, value)] guards mutually exclusive


class IterV:
    __slots__ = ('kind', 'd')

    def __init__(self, kind, **d):
        self.kind = kind
        self.d = d


def alts_of(v):
    if isinstance(v, ChoiceV):
        for g, x in v.alts:
            if x is None:
                continue   # padding of unreachable slots
            for g2, y in alts_of(x):
                yield b_and(g, g2), y
    else:
        yield True, v


# ------------------------------------------------------------------ program
class Program:
    def __init__(self, path):
        d = json.load(open(path))
        self.types = d['types']
        self.funcs = d['funcs']
        self.globals = d['globals']
        self.methods = d['methods']
        self.consts = d['consts']
        self.module = d['module']
        self._loops = {}

    def under(self, t):
        d = self.types[t]
        while d['k'] == 'named':
            t = d['under']
            d = self.types[t]
        return d

    def kind(self, t):
        return self.under(t)['k']

    def loopinfo(self, fname):
        li = self._loops.get(fname)
        if li is None:
            li = self._loops[fname] = LoopInfo(self.funcs[fname])
        return li


class LoopInfo:
    def __init__(self, fn):
        blocks = fn['blocks']
        n = len(blocks)
        succs = [b['succs'] for b in blocks]
        preds = [b['preds'] for b in blocks]
        idom = [b['idom'] for b in blocks]

        def dominates(a, b):
            while b != -1:
                if a == b:
                    return True
                b = idom[b]
            return False
        self.back = set()
        for u in range(n):
            for v in succs[u]:
                if dominates(v, u):
                    self.back.add((u, v))
        # natural loops
        body = {}
        for (u, h) in self.back:
            s = body.setdefault(h, {h})
            stack = [u]
            while stack:
                x = stack.pop()
                if x in s:
                    continue
                s.add(x)
                stack.extend(preds[x])
        self.body = body
        # rpo ignoring back edges
        order = []
        seen = [False] * n

        def dfs(u):
            seen[u] = True
            for v in reversed(succs[u]):
                if (u, v) in self.back or seen[v]:
                    continue
                dfs(v)
            order.append(u)
        if n:
            dfs(0)
        order.reverse()
        self.rpo = {b: i for i, b in enumerate(order)}
        self.loops = []
        for b in range(n):
            hs = [h for h in body if b in body[h]]
            hs.sort(key=lambda h: -len(body[h]))
            self.loops.append(hs)

    def key(self, b, iters):
        k = []
        for h, i in zip(self.loops[b], iters):
            k.append(self.rpo[h])
            k.append(i)
        k.append(self.rpo.get(b, 1 << 30))
        return tuple(k)


# ------------------------------------------------------------------ execution context
class Obligation:
    def __init__(self, kind, name, cond, pos=None, info=None):
        self.kind = kind    # 'panic' | 'assert' | 'unwind' | 'terminal' | 'unsupported'
        self.name = name
        self.cond = cond    # violated when satisfiable
        self.pos = pos
        self.info = info


class State:
    __slots__ = ('regs', 'heap')

    def __init__(self, regs, heap):
        self.regs = regs
        self.heap = heap

    def copy(self):
        return State(dict(self.regs), dict(self.heap))


class Ctx:
    def __init__(self, prog, unwind=8, unwind_by_func=None, max_depth=60):
        self.prog = prog
        self.unwind = unwind
        self.unwind_by_func = unwind_by_func or {}
        self.obligations = []
        self.terminals = []     # (kind, guard, info)  kind: exit|panic|fatal
        self.assumptions = []   # global constraints on nondet values
        self.nondets = []       # (name, kind, value)
        self.notes = []         # modelling assumptions made by intrinsics
        self.counter = itertools.count()
        self.globals_init = {}
        self.intrinsics = {}
        self.funcs_encoded = set()
        self.effects = []       # (guard, kind, payload) observable effects (stdout, file writes)
        self.depth = 0
        self.max_depth = max_depth
        self.fresh_id = itertools.count()
        self.stats = {'nodes': 0, 'merges': 0, 'calls': 0}
        self.hooks = {}

    def fresh(self, name, bits=None):
        n = '%s!%d' % (name, next(self.fresh_id))
        if bits is None:
            return z3.Bool(n)
        return z3.BitVec(n, bits)

    def newobj(self, tag='o'):
        return '%s#%d' % (tag, next(self.counter))

    def oblige(self, kind, name, cond, pos=None, info=None):
        cond = cond if not isinstance(cond, bool) else cond
        if cond is False:
            return
        self.obligations.append(Obligation(kind, name, cond, pos, info))

    def note(self, s):
        if s not in self.notes:
            self.notes.append(s)


# ------------------------------------------------------------------ merging
def merge_vals(ctx, heap, alts):
    """alts: [(guard, value)], guards mutually exclusive; returns merged value (last alt is the default)."""
    alts = [(g, v) for g, v in alts if g is not False]
    if not alts:
        return None
    v0 = alts[0][1]
    if all(same_val(v0, v) for _, v in alts[1:]):
        return v0
    if len(alts) > 2:
        # fold right
        r = alts[-1][1]
        gacc = alts[-1][0]
        for g, v in reversed(alts[:-1]):
            r = merge2(ctx, heap, g, v, gacc, r)
            gacc = b_or(g, gacc)
        return r
    (g1, a), (g2, b) = alts
    return merge2(ctx, heap, g1, a, g2, b)


def same_val(a, b):
    if a is b:
        return True
    if is_c(a) or is_c(b) or isinstance(a, z3.ExprRef) or isinstance(b, z3.ExprRef):
        return same(a, b)
    if isinstance(a, Ptr) and isinstance(b, Ptr):
        return a.obj == b.obj and a.path == b.path
    if isinstance(a, Str) and isinstance(b, Str):
        return a.cap == b.cap and same(a.ln, b.ln) and all(same(x, y) for x, y in zip(a.b, b.b))
    if isinstance(a, IfaceV) and isinstance(b, IfaceV):
        return a.t == b.t and same_val(a.v, b.v)
    if isinstance(a, SliceV) and isinstance(b, SliceV):
        return a.arr == b.arr and a.off == b.off and same(a.ln, b.ln) and a.cap == b.cap and same(a.isnil, b.isnil)
    if isinstance(a, FuncV) and isinstance(b, FuncV):
        return a.fn == b.fn and len(a.bind) == len(b.bind) and all(same_val(x, y) for x, y in zip(a.bind, b.bind))
    if isinstance(a, (tuple, list)) and isinstance(b, (tuple, list)):
        return len(a) == len(b) and all(same_val(x, y) for x, y in zip(a, b))
    if isinstance(a, StructV) and isinstance(b, StructV):
        return all(same_val(x, y) for x, y in zip(a.f, b.f))
    if a is None and b is None:
        return True
    return False


def merge2(ctx, heap, g1, a, g2, b):
    """value that is a under g1, b otherwise"""
    if same_val(a, b):
        return a
    if isinstance(a, ChoiceV) or isinstance(b, ChoiceV):
        r = mkchoice(list((b_and(g1, g), v) for g, v in alts_of(a)) + list((b_and(b_not(g1), g), v) for g, v in alts_of(b)))
        if isinstance(r, ChoiceV) and len(r.alts) > 64 and all(isinstance(v, Str) for _, v in r.alts):
            out = r.alts[-1][1]
            for g, v in reversed(r.alts[:-1]):
                out = s_ite(g, v, out)
            return out
        return r
    if a is None:
        return b
    if b is None:
        return a
    if (is_c(a) or isinstance(a, z3.ExprRef)) and (is_c(b) or isinstance(b, z3.ExprRef)):
        return ite(g1, a, b)
    if isinstance(a, Str) and isinstance(b, Str):
        if ctx.hooks.get('choice_strings') and a.is_conc() and b.is_conc():
            return mkchoice([(g1, a), (b_not(g1), b)])
        return s_ite(g1, a, b)
    if isinstance(a, StructV) and isinstance(b, StructV) and len(a.f) == len(b.f):
        return StructV([merge2(ctx, heap, g1, x, g2, y) for x, y in zip(a.f, b.f)])
    if isinstance(a, ArrayV) and isinstance(b, ArrayV):
        n = max(len(a.e), len(b.e))
        ae = a.e + [None] * (n - len(a.e))
        be = b.e + [None] * (n - len(b.e))
        return ArrayV([merge2(ctx, heap, g1, x, g2, y) for x, y in zip(ae, be)])
    if isinstance(a, tuple) and isinstance(b, tuple) and len(a) == len(b):
        return tuple(merge2(ctx, heap, g1, x, g2, y) for x, y in zip(a, b))
    if isinstance(a, IfaceV) and isinstance(b, IfaceV) and a.t == b.t:
        return IfaceV(a.t, merge2(ctx, heap, g1, a.v, g2, b.v))
    if isinstance(a, SliceV) and isinstance(b, SliceV):
        return merge_slices(ctx, heap, g1, a, b)
    if isinstance(a, LibV) and isinstance(b, LibV) and a.kind == b.kind and set(a.d) == set(b.d):
        return LibV(a.kind, **{k: merge2(ctx, heap, g1, a.d[k], g2, b.d[k]) for k in a.d})
    if isinstance(a, MapV) and isinstance(b, MapV):
        return merge_maps(ctx, heap, g1, a, b)
    if isinstance(a, IterV) and isinstance(b, IterV) and a.kind == b.kind and set(a.d) == set(b.d):
        return IterV(a.kind, **{k: merge2(ctx, heap, g1, a.d[k], g2, b.d[k]) for k in a.d})
    if isinstance(a, dict) and isinstance(b, dict):
        # file-system style dictionaries: path -> (present, content)
        out = {}
        for k in set(a) | set(b):
            va, vb = a.get(k), b.get(k)
            if va is None:
                va = (False, vb[1]) if isinstance(vb, tuple) and len(vb) == 2 else vb
            if vb is None:
                vb = (False, va[1]) if isinstance(va, tuple) and len(va) == 2 else va
            out[k] = merge2(ctx, heap, g1, va, g2, vb)
        return out
    if isinstance(a, list) and isinstance(b, list):
        # ropes: share a prefix, the shorter one is padded with empty pieces
        n = max(len(a), len(b))
        k = 0
        while k < min(len(a), len(b)) and a[k] is b[k]:
            k += 1
        if ctx.hooks.get('choice_strings') and all(isinstance(x, (Str, ChoiceV)) for x in a + b):
            from intrinsics import rope_str
            ra, rb = rope_str(list(a)), rope_str(list(b))
            return [merge2(ctx, heap, g1, ra, g2, rb)]
        if all(isinstance(x, Str) for x in a[k:] + b[k:]):
            ta = a[k:] + [EMPTY] * (n - len(a))
            tb = b[k:] + [EMPTY] * (n - len(b))
            return a[:k] + [s_ite(g1, x, y) for x, y in zip(ta, tb)]
        if len(a) == len(b):
            return [merge2(ctx, heap, g1, x, g2, y) for x, y in zip(a, b)]
    return mkchoice([(g1, a), (b_not(g1), b)])


def mkchoice(alts):
    alts = [(g, v) for g, v in alts if g is not False]
    # coalesce identical values
    out = []
    for g, v in alts:
        for i, (g0, v0) in enumerate(out):
            if same_val(v0, v):
                out[i] = (b_or(g0, g), v0)
                break
        else:
            out.append((g, v))
    if len(out) == 1:
        return out[0][1]
    return ChoiceV(out)


def slice_elems(heap, s):
    if s.arr is None:
        return []
    arr = heap[s.arr]
    return arr.e[s.off:s.off + s.cap]


def merge_slices(ctx, heap, g, a, b):
    ea, eb = slice_elems(heap, a), slice_elems(heap, b)
    # only the elements below the (upper bound of the) length matter
    def ub(s):
        u = get_ub(s.ln)
        return min(s.cap, u) if u is not None else s.cap
    na, nb = ub(a), ub(b)
    n = max(na, nb)
    ea = ea[:na] + [None] * (n - min(na, len(ea)))
    eb = eb[:nb] + [None] * (n - min(nb, len(eb)))
    ea = ea + [None] * (n - len(ea))
    eb = eb + [None] * (n - len(eb))
    key = ctx.newobj('arrm')
    heap[key] = ArrayV([merge2(ctx, heap, g, x, None, y) for x, y in zip(ea, eb)])
    ln = ite(g, a.ln, b.ln, W)
    if not is_c(ln):
        set_ub(ln, n)
    r = SliceV(key, 0, ln, n, ite(g, a.isnil, b.isnil))
    return r


def merge_maps(ctx, heap, g, a, b):
    # entries are positional when maps share history; otherwise concatenate with guarded presence
    n = min(len(a.entries), len(b.entries))
    out = []
    i = 0
    while i < n and same_val(a.entries[i][1], b.entries[i][1]):
        ea, eb = a.entries[i], b.entries[i]
        out.append([ite(g, ea[0], eb[0]), ea[1], merge2(ctx, heap, g, ea[2], None, eb[2])])
        i += 1
    for e in a.entries[i:]:
        out.append([b_and(g, e[0]), e[1], e[2]])
    for e in b.entries[i:]:
        out.append([b_and(b_not(g), e[0]), e[1], e[2]])
    return MapV(out)


def merge_states(ctx, incoming):
    """incoming: [(guard, State)] -> (guard, State)"""
    incoming = [(g, s) for g, s in incoming if g is not False]
    if len(incoming) == 1:
        return incoming[0]
    ctx.stats['merges'] += 1
    guard = b_or(*[g for g, _ in incoming])
    heap = {}
    # heap first (value merges may allocate into it)
    keys = set()
    for _, s in incoming:
        keys.update(s.heap.keys())
    first = incoming[0][1]
    for k in keys:
        alts = [(g, s.heap[k]) for g, s in incoming if k in s.heap]
        if len(alts) == 1:
            heap[k] = alts[0][1]
        else:
            v0 = alts[0][1]
            if all(v is v0 for _, v in alts[1:]):
                heap[k] = v0
            else:
                heap[k] = None  # placeholder, filled below
    for k in keys:
        if k in heap and heap[k] is None:
            alts = [(g, s.heap[k]) for g, s in incoming if k in s.heap]
            heap[k] = merge_vals(ctx, heap, alts)
    regs = {}
    common = set(first.regs.keys())
    for _, s in incoming[1:]:
        common &= s.regs.keys()
    for k in common:
        v0 = first.regs[k]
        if all(s.regs[k] is v0 for _, s in incoming[1:]):
            regs[k] = v0
        else:
            regs[k] = merge_vals(ctx, heap, [(g, s.regs[k]) for g, s in incoming])
    return guard, State(regs, heap)


# ------------------------------------------------------------------ heap access
def get_path(v, path):
    for p in path:
        if isinstance(v, StructV):
            v = v.f[p]
        elif isinstance(v, ArrayV):
            v = v.e[p]
        else:
            raise Unsupported('path into %r' % (v,))
    return v


def set_path(v, path, x):
    if not path:
        return x
    p = path[0]
    if isinstance(v, StructV):
        f = list(v.f)
        f[p] = set_path(f[p], path[1:], x)
        return StructV(f)
    if isinstance(v, ArrayV):
        e = list(v.e)
        e[p] = set_path(e[p], path[1:], x)
        return ArrayV(e)
    raise Unsupported('store path into %r' % (v,))


# ------------------------------------------------------------------ the executor
class Exec:
    def __init__(self, ctx):
        self.ctx = ctx
        self.prog = ctx.prog

    # ---- zero values
    def zero(self, t):
        d = self.prog.types[t]
        k = d['k']
        if k == 'named':
            full = (d.get('pkg', '') + '.' + d['name'])
            z = LIB_ZERO.get(full)
            if z is not None:
                return z()
            return self.zero(d['under'])
        if k == 'int':
            return 0
        if k == 'bool':
            return False
        if k == 'string':
            return EMPTY
        if k == 'float':
            return 0.0
        if k in ('ptr', 'unsafeptr', 'chan'):
            return NIL
        if k == 'map':
            return NIL
        if k == 'slice':
            if self.prog.kind(d['elem']) == 'int' and self.prog.under(d['elem'])['bits'] == 8:
                return EMPTY
            return NILSLICE
        if k == 'array':
            return ArrayV([self.zero(d['elem']) for _ in range(d['len'])])
        if k == 'struct':
            return StructV([self.zero(f['t']) for f in d['fields']])
        if k == 'iface':
            return NILIFACE
        if k == 'func':
            return FuncV(None)
        if k == 'tuple':
            return tuple(self.zero(e) for e in d['elems'])
        if k == 'nil':
            return NIL
        raise Unsupported('zero of %s' % t)

    def is_bytes(self, t):
        d = self.prog.under(t)
        return d['k'] == 'slice' and self.prog.kind(d['elem']) == 'int' and self.prog.under(d['elem'])['bits'] == 8

    def intinfo(self, t):
        d = self.prog.under(t)
        if d['k'] != 'int':
            raise Unsupported('not int: %s' % t)
        return d['bits'], d['signed']

    # ---- operand evaluation
    def const(self, c):
        t = c['t']
        if c.get('zero'):
            return self.zero(t)
        k = self.prog.kind(t)
        if k == 'int':
            bits, signed = self.intinfo(t)
            return norm(int(c['v']), bits, signed)
        if k == 'bool':
            return bool(c['v'])
        if k == 'string':
            return s_const(bytes.fromhex(c['hex']))
        if k == 'float':
            return float(c.get('f', 0.0))
        raise Unsupported('const %r' % c)

    def val(self, st, o):
        k = o['k']
        if k == 'reg':
            try:
                return st.regs[o['n']]
            except KeyError:
                raise Unsupported('undefined register %s' % o['n'])
        if k == 'const':
            return self.const(o)
        if k == 'func':
            return FuncV(o['n'])
        if k == 'global':
            self.ensure_global(st, o['n'])
            return Ptr('G:' + o['n'])
        if k == 'builtin':
            return FuncV('builtin:' + o['n'])
        raise Unsupported('operand %r' % o)

    LAZY_INIT = ('unicode/utf8', 'strconv', 'regexp', 'strings', 'bytes', 'path', 'sort', 'errors', 'path/filepath')

    def ensure_global(self, st, name):
        key = 'G:' + name
        if key not in st.heap:
            pkg = self.prog.globals.get(name, {}).get('pkg')
            done = self.ctx.hooks.setdefault('inits_done', set())
            if pkg and (pkg in self.LAZY_INIT or pkg.startswith(self.prog.module)) and pkg not in done and (pkg + '.init') in self.prog.funcs:
                done.add(pkg)
                ctx = self.ctx
                saved = (ctx.obligations, ctx.terminals, ctx.effects, ctx.hooks.get('lenient'), ctx.depth)
                ctx.obligations, ctx.terminals, ctx.effects = [], [], []
                ctx.hooks['lenient'] = True
                try:
                    _, h2, _ = self.call_function(pkg + '.init', [], st.heap, True)
                    st.heap = h2
                except Unsupported as e:
                    ctx.note('package initialiser of %s only partially executed: %s' % (pkg, str(e)[:200]))
                finally:
                    ctx.obligations, ctx.terminals, ctx.effects = saved[0], saved[1], saved[2]
                    ctx.hooks['lenient'] = saved[3]
                    ctx.depth = saved[4]
                if key in st.heap:
                    return
            init = self.ctx.globals_init.get(name)
            if init is not None:
                st.heap[key] = init(self, st) if callable(init) else init
            elif self.prog.globals[name]['t'] == 'error' and pkg and not pkg.startswith(self.prog.module):
                # sentinel errors of library packages (fs.ErrNotExist, io.EOF, ...) are distinct non-nil values
                st.heap[key] = IfaceV('error:global:' + name, s_const(name))
            else:
                st.heap[key] = self.zero(self.prog.globals[name]['t'])

    # ---- load/store through (possibly Choice) pointers
    def load(self, st, g, p, pos=None):
        res = []
        for ga, pa in alts_of(p):
            if isinstance(pa, BytePtr):
                res.append((ga, s_byte(pa.s, pa.i)))
                continue
            if not isinstance(pa, Ptr):
                raise Unsupported('load through %r' % (pa,))
            if pa.obj is None:
                self.ctx.oblige('panic', 'nil dereference', b_and(g, ga), pos)
                continue
            if pa.obj not in st.heap:
                raise Unsupported('dangling pointer %r' % pa)
            res.append((ga, get_path(st.heap[pa.obj], pa.path)))
        if not res:
            raise PathDead()
        if len(res) == 1:
            return res[0][1]
        return merge_vals(self.ctx, st.heap, res)

    def store(self, st, g, p, x, pos=None):
        for ga, pa in alts_of(p):
            if isinstance(pa, BytePtr):
                raise Unsupported('in-place store into a byte slice')
            if not isinstance(pa, Ptr):
                raise Unsupported('store through %r' % (pa,))
            if pa.obj is None:
                self.ctx.oblige('panic', 'nil dereference (store)', b_and(g, ga), pos)
                continue
            old = st.heap[pa.obj]
            if ga is True:
                st.heap[pa.obj] = set_path(old, pa.path, x)
            else:
                oldv = get_path(old, pa.path)
                st.heap[pa.obj] = set_path(old, pa.path, merge2(self.ctx, st.heap, ga, x, None, oldv))

    # ---- function execution
    def call_function(self, fname, args, heap, guard, pos=None):
        """returns (result value or tuple, heap, guard') ; guard' = paths that returned"""
        ctx = self.ctx
        fn = self.prog.funcs.get(fname)
        intr = ctx.intrinsics.get(fname)
        if intr is not None:
            st = State({}, heap)
            if ctx.hooks.get('lenient'):
                try:
                    r = intr(self, st, guard, args, pos)
                except Exception:   # opaque operands during package initialisation
                    nres = len(self.prog.types[fn['sig']]['results']) if fn is not None else 1
                    r = None if nres == 0 else (OpaqueV('init:' + fname) if nres == 1 else tuple(OpaqueV('init:%s#%d' % (fname, i)) for i in range(nres)))
                    return r, heap, guard
            else:
                r = intr(self, st, guard, args, pos)
            if isinstance(r, tuple) and len(r) == 2 and isinstance(r[0], _Ret):
                return r[0].v, st.heap, r[1]
            return r, st.heap, guard
        if fn is None or fn.get('external') or 'blocks' not in fn:
            opaque_ok = any(x in fname for x in ('github.com/spf13/cobra.', 'github.com/spf13/pflag.'))
            if opaque_ok:
                ctx.note('calls into cobra/pflag return opaque values (argument plumbing is not encoded)')
            if ctx.hooks.get('lenient') or opaque_ok:
                nres = 1
                if fn is not None:
                    nres = len(self.prog.types[fn['sig']]['results'])
                r = None if nres == 0 else (OpaqueV('call:' + fname) if nres == 1 else tuple(OpaqueV('call:%s#%d' % (fname, i)) for i in range(nres)))
                return r, heap, guard
            raise Unsupported('call to unmodelled function %s' % fname)
        ctx.funcs_encoded.add(fname)
        ctx.stats['calls'] += 1
        # summarise a callee as an uninterpreted function of its string arguments (same input -> same fresh output)
        summ = ctx.hooks.get('summarise')
        if summ and fname in summ:
            def k(a):
                if isinstance(a, Str):
                    return ('s', tuple(x if is_c(x) else ('t', x.get_id()) for x in a.b[:a.cap]), a.ln if is_c(a.ln) else ('t', a.ln.get_id()))
                return ('o',)
            key = (fname,) + tuple(k(a) for a in args)
            tbl = ctx.hooks.setdefault('_summ', {})
            if key not in tbl:
                n = len(tbl)
                out = s_fresh('summ%d' % n, summ[fname])
                ctx.assumptions.append(z3.And(out.ln >= 0, out.ln <= summ[fname]))
                # functional consistency with the earlier applications: equal inputs give equal outputs
                for (pargs, pout) in ctx.hooks.setdefault('_summ_apps', {}).get(fname, []):
                    same_in = b_and(*[s_eq(a, b) for a, b in zip(args, pargs) if isinstance(a, Str) and isinstance(b, Str)])
                    c = b_implies(same_in, s_eq(out, pout))
                    if c is not True:
                        ctx.assumptions.append(bl(c))
                ctx.hooks['_summ_apps'].setdefault(fname, []).append((list(args), out))
                tbl[key] = out
                ctx.note('%s summarised as an uninterpreted function of its input (equal inputs give equal outputs; nothing else is assumed)' % fname)
            return (tbl[key], NILIFACE), heap, guard
        # case-split selected integer arguments over their (small) value sets; memoise pure functions
        sp = ctx.hooks.get('split')
        if sp and fn['short'] in sp and not ctx.hooks.get('_in_split'):
            r = self.call_split(fname, fn, args, heap, guard, pos, sp[fn['short']])
            if r is not None:
                return r
        memo = ctx.hooks.get('pure')
        if memo and fn['short'] in memo:
            key = (fname,) + tuple((a.get_id() if isinstance(a, z3.ExprRef) else ('c', a)) if not isinstance(a, Str) else id(a) for a in args)
            mt = ctx.hooks.setdefault('_memo', {})
            if key in mt:
                ctx.stats['memo_hits'] = ctx.stats.get('memo_hits', 0) + 1
                return mt[key][0], heap, guard
            ctx.depth += 1
            try:
                nob = len(ctx.obligations)
                r = self.run(fname, fn, args, heap, True)
            finally:
                ctx.depth -= 1
            if len(ctx.obligations) == nob and r[2] is True:
                mt[key] = (r[0], args)   # keep args alive so ids stay unique
                return r[0], heap, guard
            # has obligations or may not return: fall through to a normal (guarded) run
            del ctx.obligations[nob:]
        if TRACE:
            print('  ' * ctx.depth + 'call ' + fname.rsplit('/', 1)[-1], file=sys.stderr, flush=True)
        ctx.depth += 1
        if ctx.depth > ctx.max_depth:
            raise Unsupported('call depth exceeded at %s' % fname)
        try:
            r = self.run(fname, fn, args, heap, guard)
        finally:
            ctx.depth -= 1
        if TRACE and isinstance(r[0], Str):
            print('  ' * ctx.depth + 'ret %s cap=%d ub=%s' % (fn['short'], r[0].cap, get_ub(r[0].ln)), file=sys.stderr, flush=True)
        lb = ctx.hooks.get('len_bounds')
        if lb and fn['short'] in lb and isinstance(r[0], Str) and r[2] is not False:
            res = r[0]
            ubs = []
            for a in args:
                if isinstance(a, Str):
                    u = get_ub(a.ln) if not is_c(a.ln) else a.ln
                    ubs.append(min(u if u is not None else a.cap, a.cap))
            B = lb[fn['short']](ubs)
            if res.cap > B:
                ctx.oblige('unwind', 'stated length bound %d for the result of %s exceeded' % (B, fn['short']), b_and(r[2], i_cmp('>', res.ln, B, W, True)), pos)
                r = (s_narrow(res, B), r[1], r[2])
        return r

    def call_split(self, fname, fn, args, heap, guard, pos, idxs):
        """execute fn once per feasible value of the integer arguments idxs (value sets from constant trees)"""
        ctx = self.ctx
        i = None
        for k in idxs:
            if k < len(args) and not is_c(args[k]) and isinstance(args[k], z3.ExprRef):
                vs = vals_of(args[k], 200)
                if vs is not None and len(vs) > 1:
                    i = k
                    break
        if i is None:
            if os.environ.get('VERIF_DEBUG_SPLIT'):
                for k in idxs:
                    if k < len(args) and isinstance(args[k], z3.ExprRef):
                        t_ = args[k]
                        def _why(x, d=0):
                            if x.op == 'bv': return 'bv'
                            if x.op == 'ite':
                                return 'ite[%s|%s]' % (_why(x.args[1], d+1), _why(x.args[2], d+1)) if d < 3 and not z3._ctree(x) else ('CT%d' % z3._ctree(x) if z3._ctree(x) else 'ite?')
                            return x.op + '(' + ','.join(_why(y, d+1) for y in x.args if hasattr(y, 'op'))[:200] + ')'
                        print('NOSPLIT', fname.rsplit('.', 1)[-1], pos, _why(t_)[:500], file=sys.stderr)
            return None
        ctx.stats['splits'] = ctx.stats.get('splits', 0) + 1
        outs = []
        for v in vs:
            gv = b_and(guard, args[i] == v)
            if gv is False:
                continue
            a2 = list(args)
            a2[i] = v
            r, h2, g2 = self.call_function(fname, a2, dict(heap), gv, pos)
            if g2 is False:
                continue
            outs.append((g2, State({'$r': r}, h2)))
        if not outs:
            return None, heap, False
        gm, sm = merge_states(ctx, outs)
        return sm.regs.get('$r'), sm.heap, gm

    def run(self, fname, fn, args, heap, guard):
        ctx = self.ctx
        li = self.prog.loopinfo(fname)
        blocks = fn['blocks']
        regs = {}
        for p, a in zip(fn['params'], args):
            regs[p['n']] = a
        K = ctx.unwind_by_func.get(fname, ctx.unwind_by_func.get(fn['short'], ctx.unwind))
        pending = {}
        pq = []
        start = (0, ())
        pending[start] = [(guard, State(regs, heap), None)]
        heapq.heappush(pq, (li.key(0, ()), start))
        returns = []
        while pq:
            _, node = heapq.heappop(pq)
            inc = pending.pop(node)
            b, iters = node
            ctx.stats['nodes'] += 1
            # merge incoming, computing phi by predecessor
            block = blocks[b]
            phis = [i for i in block['instrs'] if i['op'] == 'Phi']
            if phis:
                # evaluate phi per incoming edge before merging
                inc2 = []
                for g, s, pred in inc:
                    s = s.copy() if len(inc) > 1 else s
                    idx = block['preds'].index(pred)
                    vals = [self.val(s, ph['edges'][idx]) for ph in phis]
                    for ph, v in zip(phis, vals):
                        s.regs[ph['r']] = v
                    inc2.append((g, s))
            else:
                inc2 = [(g, s) for g, s, _ in inc]
            g, st = merge_states(ctx, inc2)
            if g is False:
                continue
            outs = self.exec_block(fname, fn, block, st, g)
            for (succ, g2, st2) in outs:
                if succ == 'ret':
                    returns.append((g2, st2))
                    continue
                if g2 is False:
                    continue
                # iteration vector of successor
                lu = li.loops[b]
                lv = li.loops[succ]
                cur = dict(zip(lu, iters))
                its = []
                exceeded = False
                for h in lv:
                    if h in cur:
                        c = cur[h] + (1 if (succ == h and (b, succ) in li.back) else 0)
                    else:
                        c = 0
                    if c > K:
                        exceeded = True
                    its.append(c)
                if exceeded:
                    ctx.oblige('unwind', 'unwinding bound %d exceeded in %s (loop at block %d)' % (K, fname, succ), g2,
                               None, {'func': fname})
                    continue
                nn = (succ, tuple(its))
                if nn not in pending:
                    pending[nn] = []
                    heapq.heappush(pq, (li.key(succ, nn[1]), nn))
                pending[nn].append((g2, st2, b))
        if not returns:
            return None, heap, False
        # merge returns: result stored under reg '$ret'
        g, st = merge_states(ctx, returns)
        return st.regs.get('$ret'), st.heap, g

    def exec_block(self, fname, fn, block, st, g):
        """execute instructions; returns list of (succ|'ret', guard, state)"""
        ctx = self.ctx
        for ins in block['instrs']:
            op = ins['op']
            if op == 'Phi':
                continue
            try:
                if op == 'If':
                    c = self.val(st, ins['x'])
                    t, f = block['succs']
                    gt, gf = b_and(g, c), b_and(g, b_not(c))
                    outs = []
                    if gt is not False and gf is not False:
                        outs.append((t, gt, st))
                        outs.append((f, gf, st.copy()))
                    elif gt is not False:
                        outs.append((t, gt, st))
                    elif gf is not False:
                        outs.append((f, gf, st))
                    return outs
                if op == 'Jump':
                    return [(block['succs'][0], g, st)]
                if op == 'Return':
                    rs = [self.val(st, r) for r in ins['results']]
                    st.regs = {'$ret': rs[0] if len(rs) == 1 else (tuple(rs) if rs else None)}
                    return [('ret', g, st)]
                if op == 'Panic':
                    ctx.terminals.append(('panic', g, {'pos': ins.get('pos'), 'func': fname, 'value': self.val(st, ins['x'])}))
                    return []
                g = self.exec_instr(fname, ins, st, g)
                if g is False:
                    return []
            except PathDead:
                return []
            except Unsupported as e:
                raise Unsupported('%s [%s %s %s]' % (e, fname, ins.get('pos'), op)) from None
            except (TypeError, AttributeError, KeyError, IndexError, ValueError, AssertionError) as e:
                # engine fault: say where in the Go code it happened (innermost frame only)
                if not getattr(e, '_verif_where', None):
                    e._verif_where = '%s %s %s' % (fname, ins.get('pos'), op)
                    e.args = (('%s [engine fault while executing %s]' % (e.args[0] if e.args else '', e._verif_where)),) + tuple(e.args[1:])
                raise
        raise Unsupported('block without terminator in %s' % fname)

    # ---- single instruction; returns the (possibly narrowed) guard
    def exec_instr(self, fname, ins, st, g):
        ctx = self.ctx
        op = ins['op']
        pos = '%s@%s' % (fname.rsplit('/', 1)[-1], ins.get('pos'))
        R = ins.get('r')
        if op == 'BinOp':
            st.regs[R] = self.binop(ins, self.val(st, ins['x']), self.val(st, ins['y']), g, pos)
        elif op == 'UnOp':
            x = self.val(st, ins['x'])
            u = ins['uop']
            if u == '*':
                st.regs[R] = self.load(st, g, x, pos)
            elif u == '!':
                st.regs[R] = b_not(x)
            elif u == '-':
                bits, signed = self.intinfo(ins['t'])
                st.regs[R] = i_bin('-', 0, x, bits, signed)
            elif u == '^':
                bits, signed = self.intinfo(ins['t'])
                st.regs[R] = i_bin('^', norm(-1, bits, signed), x, bits, signed)
            else:
                raise Unsupported('unop ' + u)
        elif op == 'Alloc':
            key = ctx.newobj('a')
            st.heap[key] = self.zero(ins['elem'])
            st.regs[R] = Ptr(key)
        elif op == 'Store':
            self.store(st, g, self.val(st, ins['addr']), self.val(st, ins['x']), pos)
        elif op == 'FieldAddr':
            x = self.val(st, ins['x'])
            i = ins['i']
            alts = []
            for ga, pa in alts_of(x):
                if pa.obj is None:
                    ctx.oblige('panic', 'nil dereference (field)', b_and(g, ga), pos)
                    g = b_and(g, b_not(ga))
                    continue
                alts.append((ga, Ptr(pa.obj, pa.path + (i,))))
            if not alts:
                raise PathDead()
            st.regs[R] = mkchoice(alts) if len(alts) > 1 else alts[0][1]
        elif op == 'Field':
            x = self.val(st, ins['x'])
            st.regs[R] = self.lift1(st, x, lambda v: v.f[ins['i']])
        elif op == 'IndexAddr':
            g = self.index_addr(ins, st, g, pos)
        elif op == 'Index':
            g = self.index(ins, st, g, pos)
        elif op == 'Slice':
            g = self.slice_op(ins, st, g, pos)
        elif op == 'Call':
            g = self.call(fname, ins, st, g, pos)
        elif op == 'Extract':
            x = self.val(st, ins['x'])
            st.regs[R] = self.lift1(st, x, lambda v: v[ins['i']])
        elif op == 'MakeInterface':
            st.regs[R] = IfaceV(ins['xt'], self.val(st, ins['x']))
        elif op == 'ChangeInterface':
            st.regs[R] = self.val(st, ins['x'])
        elif op == 'ChangeType':
            st.regs[R] = self.val(st, ins['x'])
        elif op == 'Convert':
            xv = self.val(st, ins['x'])
            stale_view_check(ctx, st, g, xv, pos, 'converted to string')
            st.regs[R] = self.convert(ins, xv, g, pos)
        elif op == 'MakeClosure':
            st.regs[R] = FuncV(ins['fn']['n'], tuple(self.val(st, b) for b in ins['bindings']))
        elif op == 'MakeMap':
            key = ctx.newobj('m')
            st.heap[key] = MapV([])
            st.regs[R] = Ptr(key)
        elif op == 'MakeSlice':
            ln = self.val(st, ins['len'])
            cp = self.val(st, ins['cap'])
            if not is_c(cp):
                cp = get_ub(cp)
                if cp is None:
                    raise Unsupported('MakeSlice with unbounded symbolic cap')
            if not is_c(ln):
                raise Unsupported('MakeSlice with symbolic len')
            d = self.prog.under(ins['t'])
            if self.is_bytes(ins['t']):
                st.regs[R] = Str([0] * ln, ln)
            else:
                key = ctx.newobj('arr')
                st.heap[key] = ArrayV([self.zero(d['elem']) for _ in range(max(cp, ln))])
                st.regs[R] = SliceV(key, 0, ln, max(cp, ln))
        elif op == 'MapUpdate':
            self.map_update(st, g, self.val(st, ins['m']), self.val(st, ins['key']), self.val(st, ins['x']), pos)
        elif op == 'Lookup':
            g = self.lookup(ins, st, g, pos)
        elif op == 'Range':
            st.regs[R] = self.range_(ins, st, g)
        elif op == 'Next':
            st.regs[R] = self.next_(ins, st, g, pos)
        elif op == 'TypeAssert':
            g = self.type_assert(ins, st, g, pos)
        elif op in ('RunDefers',):
            pass
        elif op == 'Defer':
            raise Unsupported('defer')
        else:
            raise Unsupported('instruction ' + op)
        return g

    def lift1(self, st, x, f):
        if isinstance(x, ChoiceV):
            return merge_vals(self.ctx, st.heap, [(ga, f(v)) for ga, v in alts_of(x)])
        return f(x)

    # ---- binop
    def binop(self, ins, x, y, g, pos):
        op = ins['bop']
        xt = ins['x'].get('t') or ins['y'].get('t')
        k = self.prog.kind(xt) if xt else None
        if isinstance(x, ChoiceV) or isinstance(y, ChoiceV):
            res = []
            for gx, vx in alts_of(x):
                for gy, vy in alts_of(y):
                    gg = b_and(gx, gy)
                    if gg is False:
                        continue
                    res.append((gg, self.binop(ins, vx, vy, b_and(g, gg), pos)))
            return merge_vals(self.ctx, None, res)
        if isinstance(x, Str) and isinstance(y, Str):
            if op == '+':
                return s_concat(x, y)
            if op == '==':
                return s_eq(x, y)
            if op == '!=':
                return b_not(s_eq(x, y))
            if op == '<':
                return s_lt(x, y)
            if op == '>':
                return s_lt(y, x)
            if op == '<=':
                return b_not(s_lt(y, x))
            if op == '>=':
                return b_not(s_lt(x, y))
            raise Unsupported('string op ' + op)
        if k == 'int':
            bits, signed = self.intinfo(xt)
            if op in ('==', '!=', '<', '<=', '>', '>='):
                return i_cmp(op, x, y, bits, signed)
            if op in ('<<', '>>'):
                yb, ys = self.intinfo(ins['y']['t'])
                y = i_conv(y, yb, ys, bits, False) if yb != bits else y
            if op in ('/', '%'):
                self.ctx.oblige('panic', 'integer divide by zero', b_and(g, i_cmp('==', y, 0, bits, signed)), pos)
                if is_c(y) and y == 0:
                    raise PathDead()
            return i_bin(op, x, y, bits, signed)
        if k == 'bool':
            if op == '==':
                return ite(x, y, b_not(y))
            if op == '!=':
                return ite(x, b_not(y), y)
            if op in ('&&', '&'):
                return b_and(x, y)
            if op in ('||', '|'):
                return b_or(x, y)
        if op in ('==', '!='):
            r = self.equal(x, y)
            return r if op == '==' else b_not(r)
        if k == 'float':
            if all(isinstance(v, float) for v in (x, y)):
                return {'+': x + y, '-': x - y, '*': x * y, '/': x / y if y else float('inf'), '<': x < y, '>': x > y,
                        '<=': x <= y, '>=': x >= y}[op]
            raise Unsupported('symbolic float')
        raise Unsupported('binop %s on %s' % (op, xt))

    def equal(self, x, y):
        if isinstance(x, Ptr) and isinstance(y, Ptr):
            return x.obj == y.obj and x.path == y.path
        if isinstance(x, IfaceV) and isinstance(y, IfaceV):
            if x.t is None or y.t is None:
                return x.t is None and y.t is None
            if x.t != y.t:
                return False
            return self.equal(x.v, y.v)
        if isinstance(x, IfaceV) and isinstance(y, Ptr) and y.obj is None:
            return x.t is None
        if isinstance(y, IfaceV) and isinstance(x, Ptr) and x.obj is None:
            return y.t is None
        if isinstance(x, SliceV) and isinstance(y, Ptr):
            return x.isnil
        if isinstance(y, SliceV) and isinstance(x, Ptr):
            return y.isnil
        if isinstance(x, SliceV) and isinstance(y, SliceV):
            if y.arr is None:
                return x.isnil
            if x.arr is None:
                return y.isnil
        if isinstance(x, Str) and isinstance(y, Ptr):   # []byte == nil
            return x.meta == 'nil'
        if isinstance(y, Str) and isinstance(x, Ptr):
            return y.meta == 'nil'
        if isinstance(x, Str) and isinstance(y, Str):
            if y.meta == 'nil' and y.cap == 0:
                return x.meta == 'nil'
            return s_eq(x, y)
        if isinstance(x, FuncV) and isinstance(y, (FuncV, Ptr)):
            yn = y.fn if isinstance(y, FuncV) else y.obj
            if yn is None:
                return x.fn is None
        if isinstance(x, StructV) and isinstance(y, StructV):
            return b_and(*[self.equal(a, b) for a, b in zip(x.f, y.f)])
        if (is_c(x) or isinstance(x, z3.ExprRef)) and (is_c(y) or isinstance(y, z3.ExprRef)):
            if isinstance(x, bool) or isinstance(y, bool) or z3.is_bool(x) or z3.is_bool(y):
                return ite(x, y, b_not(y))
            bits = x.size() if not is_c(x) else (y.size() if not is_c(y) else W)
            return i_cmp('==', x, y, bits, True)
        if x is None and y is None:
            return True
        raise Unsupported('equality of %r and %r' % (x, y))

    def convert(self, ins, x, g, pos):
        ft, tt = ins['x']['t'], ins['t']
        fk, tk = self.prog.kind(ft), self.prog.kind(tt)
        if isinstance(x, ChoiceV):
            return merge_vals(self.ctx, None, [(ga, self.convert(ins, v, g, pos)) for ga, v in alts_of(x)])
        if fk == 'int' and tk == 'int':
            fb, fs = self.intinfo(ft)
            tb, ts = self.intinfo(tt)
            return i_conv(x, fb, fs, tb, ts)
        if fk == 'string' and self.is_bytes(tt):
            return Str(x.b, x.ln)
        if tk == 'string' and self.is_bytes(ft):
            return Str(x.b, x.ln)
        if fk == 'string' and tk == 'string':
            return x
        if fk == 'int' and tk == 'string':
            return rune_to_str(self, x, self.intinfo(ft), g, pos)
        if fk == 'int' and tk == 'float':
            if is_c(x):
                return float(x)
            raise Unsupported('symbolic int to float')
        if fk == 'float' and tk == 'int':
            if isinstance(x, float):
                return int(x)
            raise Unsupported('symbolic float to int')
        if fk == tk:
            return x
        raise Unsupported('convert %s -> %s' % (ft, tt))

    # ---- indexing
    def bounds(self, g, i, ln, pos, what='index out of range', bits=W):
        ok = b_and(i_cmp('>=', i, 0, bits, True), i_cmp('<', i, ln, bits, True))
        self.ctx.oblige('panic', what, b_and(g, b_not(ok)), pos)
        g2 = b_and(g, ok)
        if g2 is False:
            raise PathDead()
        return g2

    def to_int(self, v, t):
        bits, signed = self.intinfo(t)
        return i_conv(v, bits, signed, W, True) if bits != W else v

    def index_addr(self, ins, st, g, pos):
        x = self.val(st, ins['x'])
        i = self.to_int(self.val(st, ins['y']), ins['y']['t'])
        R = ins['r']
        alts = []
        for ga, xa in alts_of(x):
            if isinstance(xa, SliceV):
                g = self.bounds(g, i, xa.ln, pos)
                if is_c(i):
                    alts.append((ga, Ptr(xa.arr, (xa.off + i,))))
                else:
                    n = min(xa.cap, get_ub(xa.ln) if get_ub(xa.ln) is not None else xa.cap)
                    for k in range(n):
                        alts.append((b_and(ga, i == k), Ptr(xa.arr, (xa.off + k,))))
            elif isinstance(xa, Ptr):  # pointer to array
                if xa.obj is None:
                    self.ctx.oblige('panic', 'nil dereference (index)', b_and(g, ga), pos)
                    continue
                arr = get_path(st.heap[xa.obj], xa.path)
                g = self.bounds(g, i, len(arr.e), pos)
                if is_c(i):
                    alts.append((ga, Ptr(xa.obj, xa.path + (i,))))
                else:
                    for k in range(len(arr.e)):
                        alts.append((b_and(ga, i == k), Ptr(xa.obj, xa.path + (k,))))
            elif isinstance(xa, Str):
                g = self.bounds(g, i, xa.ln, pos)
                alts.append((ga, BytePtr(xa, i)))
            else:
                raise Unsupported('IndexAddr on %r' % (xa,))
        if not alts:
            raise PathDead()
        st.regs[R] = mkchoice(alts) if len(alts) > 1 else alts[0][1]
        return g

    def index(self, ins, st, g, pos):
        x = self.val(st, ins['x'])
        i = self.to_int(self.val(st, ins['y']), ins['y']['t'])
        R = ins['r']
        res = []
        for ga, xa in alts_of(x):
            if isinstance(xa, Str):
                g = self.bounds(g, i, xa.ln, pos)
                res.append((ga, s_byte(xa, i)))
            elif isinstance(xa, ArrayV):
                g = self.bounds(g, i, len(xa.e), pos)
                if is_c(i):
                    res.append((ga, xa.e[i]))
                else:
                    res.append((ga, merge_vals(self.ctx, st.heap, [(i == k, e) for k, e in enumerate(xa.e)])))
            else:
                raise Unsupported('Index on %r' % (xa,))
        st.regs[R] = merge_vals(self.ctx, st.heap, res)
        return g

    def slice_get(self, st, s, i):
        """element i (int or term) of SliceV"""
        if is_c(i):
            return st.heap[s.arr].e[s.off + i]
        n = min(s.cap, get_ub(s.ln) if get_ub(s.ln) is not None else s.cap)
        return merge_vals(self.ctx, st.heap, [(i == k, st.heap[s.arr].e[s.off + k]) for k in range(n)])

    def slice_op(self, ins, st, g, pos):
        x = self.val(st, ins['x'])
        R = ins['r']
        lo = self.to_int(self.val(st, ins['low']), ins['low']['t']) if ins['low'] else 0
        hi = self.to_int(self.val(st, ins['high']), ins['high']['t']) if ins['high'] else None
        res = []
        for ga, xa in alts_of(x):
            if isinstance(xa, Str):
                h = xa.ln if hi is None else hi
                ok = b_and(i_cmp('<=', 0, lo, W, True), i_cmp('<=', lo, h, W, True), i_cmp('<=', h, xa.ln, W, True))
                self.ctx.oblige('panic', 'slice bounds out of range', b_and(g, ga, b_not(ok)), pos)
                g = b_and(g, b_or(b_not(ga), ok))
                if g is False:
                    raise PathDead()
                res.append((ga, s_substr(xa, lo, h)))
            elif isinstance(xa, SliceV):
                h = xa.ln if hi is None else hi
                # reslicing up to cap is legal in Go; we only support up to len unless concrete
                lim = xa.cap if is_c(h) else xa.ln
                ok = b_and(i_cmp('<=', 0, lo, W, True), i_cmp('<=', lo, h, W, True), i_cmp('<=', h, lim, W, True))
                self.ctx.oblige('panic', 'slice bounds out of range', b_and(g, ga, b_not(ok)), pos)
                g = b_and(g, b_or(b_not(ga), ok))
                if g is False:
                    raise PathDead()
                if not is_c(lo):
                    raise Unsupported('symbolic slice low bound on non-byte slice')
                if xa.arr is None:
                    res.append((ga, NILSLICE))
                else:
                    ln = i_bin('-', h, lo, W, True)
                    if not is_c(ln):
                        set_ub(ln, xa.cap - lo)
                    res.append((ga, SliceV(xa.arr, xa.off + lo, ln, xa.cap - lo, xa.isnil)))
            elif isinstance(xa, Ptr):  # slicing pointer to array
                arr = get_path(st.heap[xa.obj], xa.path)
                if xa.path:
                    raise Unsupported('slice of nested array')
                h = len(arr.e) if hi is None else hi
                if not (is_c(lo) and is_c(h)):
                    raise Unsupported('symbolic slice of array')
                if self.is_bytes(ins['t']):
                    res.append((ga, Str(list(arr.e[lo:h]), h - lo)))
                else:
                    res.append((ga, SliceV(xa.obj, lo, h - lo, len(arr.e) - lo)))
            else:
                raise Unsupported('Slice on %r' % (xa,))
        st.regs[R] = merge_vals(self.ctx, st.heap, res)
        return g

    # ---- maps
    def key_eq(self, a, b):
        if isinstance(a, ChoiceV) or isinstance(b, ChoiceV):
            r = False
            for ga, va in alts_of(a):
                for gb, vb in alts_of(b):
                    r = b_or(r, b_and(ga, gb, self.key_eq(va, vb)))
            return r
        if isinstance(a, Str):
            return s_eq(a, b)
        return self.equal(a, b)

    def map_obj(self, st, g, m, pos, write=False):
        if not isinstance(m, Ptr):
            raise Unsupported('map value %r' % (m,))
        if m.obj is None:
            if write:
                self.ctx.oblige('panic', 'assignment to entry in nil map', g, pos)
                raise PathDead()
            return MapV([])
        return st.heap[m.obj]

    def map_update(self, st, g, m, key, x, pos):
        for ga, ma in alts_of(m):
            mo = self.map_obj(st, b_and(g, ga), ma, pos, True)
            found = False
            ents = []
            for (p, k, v) in mo.entries:
                e = b_and(p, self.key_eq(k, key))
                if e is True and ga is True:
                    ents.append([p, k, x])
                elif e is False:
                    ents.append([p, k, v])
                else:
                    ents.append([p, k, merge2(self.ctx, st.heap, b_and(ga, e), x, None, v)])
                found = b_or(found, e)
            if found is not True:
                ents.append([b_and(ga, b_not(found)), key, x])
            st.heap[ma.obj] = MapV(ents)

    def map_lookup(self, st, g, m, key, zero, pos):
        res = []
        for ga, ma in alts_of(m):
            mo = self.map_obj(st, b_and(g, ga), ma, pos)
            val = zero
            ok = False
            for (p, k, v) in reversed(mo.entries):
                e = b_and(p, self.key_eq(k, key))
                if e is False:
                    continue
                val = merge2(self.ctx, st.heap, e, v, None, val)
                ok = b_or(ok, e)
            res.append((ga, (val, ok)))
        return merge_vals(self.ctx, st.heap, res)

    def lookup(self, ins, st, g, pos):
        x = self.val(st, ins['x'])
        y = self.val(st, ins['y'])
        R = ins['r']
        if isinstance(x, Str):  # string indexing via Lookup
            i = self.to_int(y, ins['y']['t'])
            g = self.bounds(g, i, x.ln, pos)
            st.regs[R] = s_byte(x, i)
            return g
        mt = self.prog.under(ins['x']['t'])
        v, ok = self.map_lookup(st, g, x, y, self.zero(mt['elem']), pos)
        st.regs[R] = (v, ok) if ins['commaok'] else v
        return g

    def range_(self, ins, st, g):
        x = self.val(st, ins['x'])
        if isinstance(x, Str):
            return IterV('str', s=x, pos=0)
        # map: symbolic permutation over entry slots; present entries first
        res = []
        for ga, ma in alts_of(x):
            if ma.obj is None:
                res.append((ga, IterV('map', m=ma, n=0, perm=[], step=0, cnt=0)))
                continue
            mo = st.heap[ma.obj]
            n = len(mo.entries)
            ctx = self.ctx
            if n <= 1 or ctx.hooks.get('fixed_map_order'):
                # checks that are not about iteration order run one schedule (insertion order); order independence
                # of the code they go through is decided separately (C03)
                perm = list(range(n))
            else:
                perm = [ctx.fresh('perm', 8) for _ in range(n)]
                for p in perm:
                    ctx.assumptions.append(z3.ULT(p, n))
                ctx.assumptions.append(z3.Distinct(*perm))
            # number of present entries
            cnt = 0
            for (p, k, v) in mo.entries:
                cnt = i_bin('+', cnt, ite(p, 1, 0, 8), 8, False)
            # present entries come first in the order
            for j in range(n):
                pres_j = self.perm_sel(perm[j], [e[0] for e in mo.entries])
                c = b_implies(i_cmp('<', j, cnt, 8, False), pres_j)
                if c is not True:
                    ctx.assumptions.append(bl(c))
            res.append((ga, IterV('map', m=ma, n=n, perm=perm, step=0, cnt=cnt)))
        return merge_vals(self.ctx, st.heap, res)

    def perm_sel(self, idx, vals):
        if is_c(idx):
            return vals[idx]
        return merge_vals(self.ctx, None, [(idx == k, v) for k, v in enumerate(vals)])

    def next_(self, ins, st, g, pos):
        it = self.val(st, ins['x'])
        res = []
        newits = []
        for ga, ia in alts_of(it):
            if ia.kind == 'str':
                r, ni = str_next(self, st, b_and(g, ga), ia, pos)
            else:
                r, ni = self.map_next(st, ia)
            res.append((ga, r))
            newits.append((ga, ni))
        # iterator is updated in place (register rebinding)
        st.regs[ins['x']['n']] = merge_vals(self.ctx, st.heap, newits)
        return merge_vals(self.ctx, st.heap, res)

    def map_next(self, st, it):
        d = it.d
        j = d['step']
        n = d['n']
        if j >= n:
            return (False, None, None), it
        mo = st.heap[d['m'].obj]
        ok = i_cmp('<', j, d['cnt'], 8, False)
        # entries may have been appended during iteration; only the first n slots are visited
        ents = mo.entries[:n]
        k = self.perm_sel(d['perm'][j], [e[1] for e in ents])
        v = self.perm_sel(d['perm'][j], [e[2] for e in ents])
        ni = IterV('map', m=d['m'], n=n, perm=d['perm'], step=j + 1, cnt=d['cnt'])
        return (ok, k, v), ni

    def type_assert(self, ins, st, g, pos):
        x = self.val(st, ins['x'])
        R = ins['r']
        at = ins['asserted']
        ak = self.prog.kind(at)
        res = []
        for ga, xa in alts_of(x):
            if not isinstance(xa, IfaceV):
                raise Unsupported('type assert on %r' % (xa,))
            if ak == 'iface':
                ok = xa.t is not None   # method-set check not modelled: assume satisfied for non-nil
                v = xa
            else:
                ok = xa.t == at
                v = xa.v if ok else self.zero(at)
            if ins['commaok']:
                res.append((ga, (v, ok)))
            else:
                if not ok:
                    self.ctx.oblige('panic', 'failed type assertion', b_and(g, ga), pos)
                    g = b_and(g, b_not(ga))
                else:
                    res.append((ga, v))
        if not res:
            raise PathDead()
        st.regs[R] = merge_vals(self.ctx, st.heap, res)
        return g

    # ---- calls
    def call(self, fname, ins, st, g, pos):
        ctx = self.ctx
        R = ins.get('r')
        args = [self.val(st, a) for a in ins['args']]
        targets = []
        if 'invoke' in ins:
            recv = self.val(st, ins['recv'])
            for ga, ra in alts_of(recv):
                if not isinstance(ra, IfaceV):
                    raise Unsupported('invoke on %r' % (ra,))
                if ra.t is None:
                    ctx.oblige('panic', 'nil interface method call', b_and(g, ga), pos)
                    continue
                tbl = self.prog.methods.get(ra.t)
                name = None
                if tbl is not None:
                    name = tbl.get(ins['invoke'])
                if name is None:
                    name = 'invoke:%s.%s' % (ra.t, ins['invoke'])
                targets.append((ga, name, [ra.v] + args))
        else:
            f = ins['fn']
            if f['k'] == 'builtin':
                st.regs[R] = builtin(self, f['n'], ins, args, st, g, pos)
                return g
            if 'static' in ins and f['k'] == 'func':
                targets.append((True, ins['static'], args))
            else:
                fv = self.val(st, f)
                for ga, fa in alts_of(fv):
                    if not isinstance(fa, FuncV):
                        raise Unsupported('call of %r' % (fa,))
                    if fa.fn is None:
                        ctx.oblige('panic', 'nil function call', b_and(g, ga), pos)
                        continue
                    targets.append((ga, fa.fn, args, fa.bind))
        results = []
        gout = False
        for t in targets:
            ga, name, a = t[0], t[1], t[2]
            bind = t[3] if len(t) > 3 else ()
            gg = b_and(g, ga)
            if gg is False:
                continue
            heap = st.heap if len(targets) == 1 else dict(st.heap)
            r, heap2, g2 = self.call_with_bindings(name, a, bind, heap, gg, pos)
            if g2 is False:
                continue
            results.append((g2, r, heap2))
            gout = b_or(gout, g2)
        if not results:
            raise PathDead()
        if len(results) == 1:
            g2, r, heap2 = results[0]
            st.heap = heap2
            if R:
                st.regs[R] = r
            return g2
        # merge heaps/results of alternative targets
        sts = [(g2, State({'$r': r}, h)) for g2, r, h in results]
        gm, sm = merge_states(ctx, sts)
        st.heap = sm.heap
        if R:
            st.regs[R] = sm.regs.get('$r')
        return gm

    def call_with_bindings(self, name, args, bind, heap, g, pos):
        ctx = self.ctx
        if name in ctx.intrinsics:
            return self.call_function(name, args, heap, g, pos)
        fn = self.prog.funcs.get(name)
        if fn is None or 'blocks' not in fn:
            # synthesized wrappers / unknown
            return self.call_function(name, args, heap, g, pos)
        if bind:
            # free variables become registers
            ctx.funcs_encoded.add(name)
            ctx.depth += 1
            try:
                fn2 = dict(fn)
                fn2['params'] = fn['params'] + fn['freevars']
                return self.run(name, fn2, list(args) + list(bind), heap, g)
            finally:
                ctx.depth -= 1
        return self.call_function(name, args, heap, g, pos)


class _Ret:
    """marker used by intrinsics that narrow the guard: return (_Ret(value), guard)"""

    def __init__(self, v):
        self.v = v


def ret(v, g):
    return (_Ret(v), g)


# ------------------------------------------------------------------ runes / string iteration
def rune_to_str(ex, x, info, g, pos):
    bits, signed = info
    if is_c(x):
        try:
            return s_const(chr(x).encode('utf-8'))
        except (ValueError, OverflowError):
            return s_const('�')
    x32 = i_conv(x, bits, signed, 32, True)
    if i_cmp('<', x32, 0x80, 32, True) is True and i_cmp('>=', x32, 0, 32, True) is True:
        b = z3.Extract(7, 0, x32)
        set_ub(b, get_ub(x32), get_lb(x32) or 0)
        return Str([b], 1)
    one = Str([z3.Extract(7, 0, x32)], 1)
    two = Str([z3.Extract(7, 0, 0xC0 | z3.LShR(x32, 6)), z3.Extract(7, 0, 0x80 | (x32 & 0x3F))], 2)
    is1 = z3.And(x32 >= 0, x32 < 0x80)
    is2 = z3.And(x32 >= 0x80, x32 < 0x800)
    ex.ctx.oblige('unsupported', 'rune >= 0x800 converted to string (3/4-byte UTF-8 not modelled)', b_and(g, z3.Not(z3.Or(is1, is2))), pos)
    return s_ite(is1, one, two)


def str_next(ex, st, g, it, pos):
    """range over string: (ok, index, rune); UTF-8 decoding for 1- and 2-byte sequences"""
    s = it.d['s']
    p = it.d['pos']
    ok = i_cmp('<', p, s.ln, W, True)
    if ok is False:
        return (False, 0, 0), it
    b0 = s_byte(s, p)
    b1 = s_byte(s, i_bin('+', p, 1, W, True))
    if is_c(b0) and is_c(b1) and is_c(p) and is_c(s.ln):
        if b0 < 0x80:
            r, w = b0, 1
        elif 0xC2 <= b0 < 0xE0 and p + 1 < s.ln and 0x80 <= b1 < 0xC0:
            r, w = ((b0 & 0x1F) << 6) | (b1 & 0x3F), 2
        elif b0 >= 0xE0:
            # decode with Python for concrete strings
            rest = bytes(s.b[p:s.ln])
            try:
                ch = rest[:4].decode('utf-8', errors='strict')[0] if False else None
            except Exception:
                ch = None
            w = 1
            r = 0xFFFD
            for L in (3, 4):
                try:
                    c = rest[:L].decode('utf-8')
                    if len(c) == 1:
                        r, w = ord(c), L
                        break
                except UnicodeDecodeError:
                    pass
        else:
            r, w = 0xFFFD, 1
        return (True, p, r), IterV('str', s=s, pos=p + w)
    b0_32 = i_conv(b0, 8, False, 32, False)
    ascii_ = i_cmp('<', b0, 0x80, 8, False)
    if ascii_ is True:
        np = i_bin('+', p, 1, W, True)
        if not is_c(np):
            set_ub(np, s.cap + 1)
        return (ok, p, b0_32), IterV('str', s=s, pos=np)
    b1_32 = i_conv(b1, 8, False, 32, False)
    has2 = i_cmp('<', i_bin('+', p, 1, W, True), s.ln, W, True)
    two = b_and(i_cmp('>=', b0, 0xC2, 8, False), i_cmp('<', b0, 0xE0, 8, False), has2,
                i_cmp('>=', b1, 0x80, 8, False), i_cmp('<', b1, 0xC0, 8, False))
    big = i_cmp('>=', b0, 0xE0, 8, False)
    if big is not False:
        ex.ctx.oblige('unsupported', 'lead byte >= 0xE0 in ranged string (3/4-byte UTF-8 not modelled)', b_and(g, ok, big), pos)
    r2 = i_bin('|', i_bin('<<', i_bin('&', b0_32, 0x1F, 32, False), 6, 32, False), i_bin('&', b1_32, 0x3F, 32, False), 32, False)
    r = ite(ascii_, b0_32, ite(two, r2, 0xFFFD, 32), 32)
    w = ite(two, 2, 1, W)
    np = i_bin('+', p, w, W, True)
    if not is_c(np):
        set_ub(np, s.cap + 1)
    return (ok, p, r), IterV('str', s=s, pos=np)


# ------------------------------------------------------------------ builtins
def builtin(ex, name, ins, args, st, g, pos):
    ctx = ex.ctx
    if name == 'len':
        x = args[0]
        res = []
        for ga, xa in alts_of(x):
            if isinstance(xa, Str):
                res.append((ga, xa.ln))
            elif isinstance(xa, SliceV):
                res.append((ga, xa.ln))
            elif isinstance(xa, Ptr):   # map
                if xa.obj is None:
                    res.append((ga, 0))
                else:
                    mo = st.heap[xa.obj]
                    if isinstance(mo, MapV):
                        c = 0
                        for (p, k, v) in mo.entries:
                            c = i_bin('+', c, ite(p, 1, 0, W), W, True)
                        if not is_c(c):
                            set_ub(c, len(mo.entries))
                        res.append((ga, c))
                    elif isinstance(mo, ArrayV):
                        res.append((ga, len(mo.e)))
                    else:
                        raise Unsupported('len of %r' % (mo,))
            elif isinstance(xa, ArrayV):
                res.append((ga, len(xa.e)))
            else:
                raise Unsupported('len of %r' % (xa,))
        return merge_vals(ctx, st.heap, res)
    if name == 'cap':
        x = args[0]
        if isinstance(x, Str):
            return x.ln
        if isinstance(x, SliceV):
            return x.cap
        raise Unsupported('cap')
    if name == 'append':
        return do_append(ex, st, g, args[0], args[1], ins)
    if name == 'copy':
        raise Unsupported('copy builtin')
    if name == 'delete':
        m, key = args
        for ga, ma in alts_of(m):
            if ma.obj is None:
                continue
            mo = st.heap[ma.obj]
            ents = []
            for (p, k, v) in mo.entries:
                e = ex.key_eq(k, key)
                ents.append([b_and(p, b_not(b_and(ga, e))), k, v])
            st.heap[ma.obj] = MapV(ents)
        return None
    if name in ('print', 'println'):
        return None
    if name == 'min' or name == 'max':
        bits, signed = ex.intinfo(ins['t'])
        r = args[0]
        for a in args[1:]:
            c = i_cmp('<' if name == 'min' else '>', a, r, bits, signed)
            r = ite(c, a, r, bits)
        return r
    raise Unsupported('builtin ' + name)


def stale_view_check(ctx, st, g, s, pos, use):
    """s may be a view of a bufio.Reader's buffer (result of ReadLine, tagged with the generation of the read that produced
    it): using it after a later read on the same reader uses a buffer that is no longer valid (documented contract)."""
    if isinstance(s, Str) and isinstance(s.meta, tuple) and s.meta[0] == 'rlview':
        rdo = st.heap.get(s.meta[1])
        cur = rdo.d.get('rlgen', 0) if isinstance(rdo, LibV) else 0
        ctx.oblige('assert', 'stale bufio.Reader buffer: result of ReadLine %s after the next read on the same reader' % use,
                   b_and(g, i_cmp('>', cur, s.meta[2], W, True)), pos)


def do_append(ex, st, g, s, t, ins):
    """append(s, t...) ; always copies into a fresh backing array (aliasing through append is not modelled)"""
    ctx = ex.ctx
    if isinstance(s, ChoiceV) or isinstance(t, ChoiceV):
        res = []
        for gs, sa in alts_of(s):
            for gt, ta in alts_of(t):
                res.append((b_and(gs, gt), do_append(ex, st, g, sa, ta, ins)))
        return merge_vals(ctx, st.heap, res)
    stale_view_check(ctx, st, g, s, ins.get('pos'), 'extended by append')
    if isinstance(s, Str) or (isinstance(t, Str) and ex.is_bytes(ins['t'])):
        if isinstance(t, Ptr) and t.obj is None:
            return s
        if not isinstance(s, Str):
            s = EMPTY
        return s_concat(s, t)
    if isinstance(t, Ptr) and t.obj is None:
        return s
    if t.arr is None:
        return s
    if isinstance(s, Ptr):
        s = NILSLICE
    se = slice_elems(st.heap, s)
    te = slice_elems(st.heap, t)
    ubs = get_ub(s.ln) if not is_c(s.ln) else s.ln
    ubs = min(ubs if ubs is not None else s.cap, s.cap)
    ubt = get_ub(t.ln) if not is_c(t.ln) else t.ln
    ubt = min(ubt if ubt is not None else t.cap, t.cap)
    n = ubs + ubt
    out = []
    if is_c(s.ln):
        out = list(se[:s.ln]) + list(te[:ubt])
    else:
        for p in range(n):
            alts = []
            # position p holds s[p] if p < s.ln else t[p - s.ln]
            if p < ubs:
                alts.append((i_cmp('<', p, s.ln, W, True), se[p]))
            for la in range(min(ubs, p), max(-1, p - ubt), -1):
                alts.append((s.ln == la, te[p - la]))
            if not alts:
                out.append(None)
                continue
            # default (unreachable positions): last alt value
            out.append(merge_vals(ctx, st.heap, alts + [(True, alts[-1][1])]) if len(alts) > 1 else alts[0][1])
    key = ctx.newobj('arr')
    st.heap[key] = ArrayV(out)
    ln = i_bin('+', s.ln, t.ln, W, True)
    if not is_c(ln):
        set_ub(ln, n)
    return SliceV(key, 0, ln, len(out))


def mk_slice(ex, st, elems, ln=None, isnil=False):
    key = ex.ctx.newobj('arr')
    st.heap[key] = ArrayV(list(elems))
    if ln is None:
        ln = len(elems)
    elif not is_c(ln):
        set_ub(ln, len(elems))
    return SliceV(key, 0, ln, len(elems), isnil)


LIB_ZERO = {}
