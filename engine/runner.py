"""Driver layer: build SSA from /repo's working tree, run harness functions through gobmc,
discharge obligations with z3, extract models, run jobs in parallel."""
import json
import os
import subprocess
import sys
import time
import multiprocessing as mp
import tempfile
import hashlib
import zz as z3

HERE = os.path.dirname(os.path.abspath(__file__))
ROOT = os.path.dirname(HERE)
sys.path.insert(0, HERE)
from sym import *
import gobmc
from gobmc import Ctx, Exec, Program, Unsupported, State, Ptr, StructV, LibV, OpaqueV, IfaceV, SliceV, alts_of
import intrinsics
import pike

REPO = os.environ.get('VERIF_REPO', '/repo')
MOD = 'github.com/coreruleset/crs-toolchain/v2'
GOENV = dict(os.environ, GOFLAGS='-mod=mod', GOPROXY='off', GOSUMDB='off', GOTOOLCHAIN='local')
# library packages whose real Go bodies are dumped as a fallback for calls without a Python model
STDLIB_FALLBACK = 'strings,bytes,unicode/utf8,unicode,strconv,path,regexp,sort,slices,maps,errors,path/filepath'
OUT = os.environ.get('VERIF_OUT') or os.path.join(ROOT, 'out')
os.makedirs(OUT, exist_ok=True)


def build_ssa(overlay_dir=None, tag=''):
    """dump SSA of /repo (+ harness overlay) ; returns path of the JSON"""
    overlay_dir = overlay_dir or os.path.join(ROOT, 'harness')
    out = os.path.join(OUT, 'ssa%s.json' % tag)
    t = time.time()
    r = subprocess.run([os.path.join(ROOT, '.build', 'ssadump'), '-repo', REPO, '-overlay', overlay_dir, '-out', out, '-extra', STDLIB_FALLBACK],
                       capture_output=True, text=True, env=GOENV)
    if r.returncode != 0:
        raise RuntimeError('ssadump failed (does /repo still compile with the harness overlay?):\n' + r.stderr[-4000:])
    return out, time.time() - t


_PROG = {}


def load_prog(path):
    p = _PROG.get(path)
    if p is None:
        p = _PROG[path] = Program(path)
    return p


HARNESS_PKGS = ['cmd', 'regex', 'regex/operators', 'regex/parser', 'regex/processors', 'util', 'chore', 'utils', 'configuration', 'context']


def new_ctx(prog, **kw):
    ctx = Ctx(prog, **kw)
    intrinsics.install(ctx)
    ctx.globals_init['os.Stdout'] = gobmc.Ptr('STDOUT')
    ctx.globals_init['os.Stdin'] = gobmc.Ptr('STDIN')
    ctx.globals_init['io.EOF'] = intrinsics.EOF_ERR
    ctx.globals_init['io/fs.SkipDir'] = gobmc.IfaceV('error:skipdir', s_const('skip this directory'))
    ctx.globals_init['io/fs.SkipAll'] = gobmc.IfaceV('error:skipall', s_const('skip everything and stop the walk'))
    intrinsics.register_harness_api(ctx, [MOD + '/' + p for p in HARNESS_PKGS])
    return ctx


def lenient_call(ex, name):
    """used while running package initialisers: unknown calls give opaque values"""
    fn = ex.prog.funcs.get(name)
    nres = 1
    if fn is not None:
        sig = ex.prog.types[fn['sig']]
        nres = len(sig['results'])
    if nres == 0:
        return None
    if nres == 1:
        return OpaqueV('call:' + name)
    return tuple(OpaqueV('call:%s#%d' % (name, i)) for i in range(nres))


def run_inits(ex, heap, pkgs):
    """execute the package initialisers (var initialisers such as regexp.MustCompile) leniently"""
    ctx = ex.ctx
    saved = (ctx.obligations, ctx.terminals, ctx.effects)
    ctx.obligations, ctx.terminals, ctx.effects = [], [], []
    ctx.hooks['lenient'] = True
    try:
        for p in pkgs:
            name = MOD + ('/' + p if p else '') + '.init'
            if name in ex.prog.funcs:
                _, heap, _ = ex.call_function(name, [], heap, True)
    finally:
        ctx.hooks['lenient'] = False
        ctx.obligations, ctx.terminals, ctx.effects = saved
    return heap


class Result(dict):
    pass


_ACTIVE = None


def active_known():
    global _ACTIVE
    if _ACTIVE is None:
        try:
            _ACTIVE = {f['id'] for f in json.load(open(os.path.join(ROOT, 'known_findings.json'))).get('findings', [])}
        except OSError:
            _ACTIVE = set()
    return _ACTIVE


def model_values(ctx, model):
    vals = {}
    for tag, kind, v in ctx.nondets:
        if kind == 'str':
            vals[tag] = {'kind': 'str', 'hex': s_value(model, v).hex(), 'text': s_value(model, v).decode('latin1')}
        elif kind == 'int':
            vals[tag] = {'kind': 'int', 'v': ev_int(model, v, signed=True)}
        elif kind == 'bool':
            vals[tag] = {'kind': 'bool', 'v': bool(ev_int(model, v))}
        elif kind == 'byte':
            vals[tag] = {'kind': 'byte', 'v': ev_int(model, v)}
    obs = {}
    for g, kind, payload in ctx.effects:
        if kind == 'observe':
            name, v = payload
            try:
                gv = ev_int(model, g) if not isinstance(g, bool) else g
                if not gv:
                    continue
                if isinstance(v, Str):
                    obs[name] = s_value(model, v).decode('latin1')
                elif is_c(v) or isinstance(v, z3.ExprRef):
                    obs[name] = ev_int(model, v, signed=True)
                else:
                    obs[name] = repr(v)
            except Exception as e:  # noqa
                obs[name] = '<%s>' % e
    return vals, obs


def solve(ctx, cond, timeout_ms, extra=()):
    s = z3.Solver()
    s.set('timeout', timeout_ms)
    for a in ctx.assumptions:
        s.add(a)
    for a in extra:
        s.add(a)
    s.add(bl(cond))
    t = time.time()
    d = os.environ.get('VERIF_DUMP')
    if d:
        global _DUMPN
        _DUMPN = globals().get('_DUMPN', 0) + 1
        with open('%s.%d.smt2' % (d, _DUMPN), 'w') as f:
            f.write(s.to_smt2())
    r = s.check()
    return r, s, time.time() - t


def run_harness(ssa_path, fname, params=None, fixlen=None, unwind=10, unwind_by_func=None, timeout_ms=120000,
                inits=('regex',), hooks=None, exclude=None, want_reach=True, max_models=1, dump_smt=None,
                terminal_obligations=('fatal', 'exit', 'logpanic'), unwind_is_violation=False):
    """Execute harness `fname` (short name inside package path 'pkg') and decide all obligations.
    exclude: optional python callable(ctx) -> list of z3 constraints conjoined to every violation query
             (known-finding signatures)."""
    t0 = time.time()
    if hooks and hooks.get('compact'):
        # constant-tree compaction by distinct value (see engine/zz.py): per job, each job runs in its own process
        z3.COMPACT = z3.COMPACT_ITE = True
        z3.CT_BIG = 200
    prog = load_prog(ssa_path)
    ctx = new_ctx(prog, unwind=unwind, unwind_by_func=unwind_by_func or {})
    ctx.hooks['params'] = params or {}
    ctx.hooks['fixlen'] = fixlen or {}
    if hooks:
        ctx.hooks.update(hooks)
    if 'len_bounds' in ctx.hooks and isinstance(ctx.hooks['len_bounds'], str):
        import importlib
        m, f = ctx.hooks['len_bounds'].rsplit('.', 1)
        ctx.hooks['len_bounds'] = getattr(importlib.import_module(m), f)
    ex = Exec(ctx)
    res = Result(harness=fname, params=params or {}, fixlen=fixlen or {}, obligations=[], status='ok')
    try:
        heap = {}
        heap = run_inits(ex, heap, inits)
        _, heap, g = ex.call_function(fname, [], heap, True)
    except Unsupported as e:
        res['status'] = 'unsupported'
        res['error'] = str(e)
        res['wall_s'] = time.time() - t0
        return res
    res['encode_s'] = time.time() - t0
    res['funcs_encoded'] = sorted(ctx.funcs_encoded)
    res['notes'] = ctx.notes
    res['stats'] = ctx.stats
    res['patterns'] = sorted(ctx.hooks.get('patterns', {}).keys())
    # terminal outcomes that are runtime faults count as panic obligations (exit/fatal are outcomes, not faults)
    obls = list(ctx.obligations)
    for kind, g, info in ctx.terminals:
        if kind == 'panic':
            obls.append(gobmc.Obligation('panic', 'explicit panic: %s' % (info.get('value'),), g, info.get('pos')))
        elif kind in terminal_obligations:
            obls.append(gobmc.Obligation('panic', 'process ends here (%s) although the harness expects a normal return' % kind, g, info.get('pos')))
    if unwind_is_violation:
        # termination is the property: a loop of the code under test that can exceed its bound is a violation candidate
        # (confirmed only if the native replay does not return within its time limit)
        obls = [gobmc.Obligation('panic', 'possible non-termination: ' + ob.name, ob.cond, ob.pos) if (ob.kind == 'unwind' and 'unwinding bound' in ob.name) else ob for ob in obls]
    solver_s = 0.0
    nq = 0
    only = hooks.get('only_obligations') if hooks else None
    if only:
        obls = [ob for ob in obls if not (ob.kind in ('assert', 'panic') and not only(ob))]

    def record(ob, result, dt, **kw):
        e = {'kind': ob.kind, 'name': ob.name, 'pos': ob.pos, 'result': result, 'solver_s': round(dt, 3)}
        e.update(kw)
        res['obligations'].append(e)

    # 1. reachability witnesses, one query each (must be sat)
    for ob in obls:
        if ob.kind == 'reach' and want_reach:
            r, s, dt = solve(ctx, ob.cond, timeout_ms)
            solver_s += dt
            nq += 1
            record(ob, str(r), dt)
    # 2. everything else in batches: one query for the disjunction, models split it up
    def batch(group, sigs):
        nonlocal solver_s, nq
        pending = list(group)
        blocked = []
        rounds = 0
        while pending:
            disj = b_or(*[ob.cond for ob in pending])
            r, s, dt = solve(ctx, disj, timeout_ms, [z3.Not(v) for v in sigs.values()] + blocked)
            solver_s += dt
            nq += 1
            if r == z3.unsat:
                for ob in pending:
                    record(ob, 'unsat', dt / len(pending), batch=len(pending))
                break
            if r == z3.unknown:
                # fall back to individual queries
                for ob in pending:
                    r1, s1, dt1 = solve(ctx, ob.cond, timeout_ms, [z3.Not(v) for v in sigs.values()] + blocked)
                    solver_s += dt1
                    nq += 1
                    if r1 == z3.sat:
                        vals, obs = model_values(ctx, s1.model())
                        record(ob, 'sat', dt1, model=vals, observed=obs)
                    else:
                        record(ob, str(r1), dt1)
                break
            m = s.model()
            truth = z3.evaluate([bl(ob.cond) if isinstance(ob.cond, bool) else ob.cond for ob in pending], m.env)
            vals, obs = model_values(ctx, m)
            hit = [ob for ob, t in zip(pending, truth) if t]
            if not hit:
                raise RuntimeError('batch model satisfies no member of the disjunction')
            for ob in hit:
                more = []
                if max_models > 1 and ob.kind == 'assert':
                    # further, different counterexamples of the same obligation (a first model need not reproduce natively
                    # when a callee is summarised): block the values of the harness inputs and ask again
                    seen = [m]
                    for _ in range(max_models - 1):
                        diffs = []
                        for pm in seen:
                            d = []
                            for tag, kind, v in ctx.nondets:
                                if kind == 'str':
                                    d.append(b_not(s_eq(v, s_const(s_value(pm, v)))))
                                elif kind in ('int', 'byte', 'bool'):
                                    d.append(b_not(i_cmp('==', v, ev_int(pm, v), v.size(), False)) if not isinstance(v, bool) else False)
                            diffs.append(bl(b_or(*d)))
                        r3, s3, dt3 = solve(ctx, ob.cond, timeout_ms, [z3.Not(v) for v in sigs.values()] + diffs)
                        solver_s += dt3
                        nq += 1
                        if r3 != z3.sat:
                            break
                        m3 = s3.model()
                        seen.append(m3)
                        v3, o3 = model_values(ctx, m3)
                        more.append({'model': v3, 'observed': o3})
                record(ob, 'sat', dt / len(hit), model=vals, observed=obs, more_models=more)
                blocked.append(z3.Not(bl(ob.cond)) if not isinstance(ob.cond, bool) else (not ob.cond))
            pending = [ob for ob in pending if ob not in hit]
            rounds += 1
            if rounds >= 6:
                for ob in pending:
                    record(ob, 'unknown', 0.0, note='batch splitting stopped after 6 models')
                break
        # witnesses inside each known-finding class
        if sigs:
            for kid, sig in sigs.items():
                disj = b_or(*[ob.cond for ob in group])
                r2, s2, dt2 = solve(ctx, disj, timeout_ms, [sig])
                solver_s += dt2
                nq += 1
                if r2 == z3.sat:
                    m = s2.model()
                    truth = z3.evaluate([ob.cond for ob in group if not isinstance(ob.cond, bool)], m.env)
                    vals, obs = model_values(ctx, m)
                    hitobs = [ob for ob, t in zip([o for o in group if not isinstance(o.cond, bool)], truth) if t]
                    ob = hitobs[0] if hitobs else group[0]
                    for e in res['obligations']:
                        if e['name'] == ob.name and e['pos'] == ob.pos and e['kind'] == ob.kind:
                            e.setdefault('known', []).append({'id': kid, 'model': vals, 'observed': obs})
                            break
                elif r2 == z3.unknown:
                    res['obligations'].append({'kind': 'assert', 'name': 'known-class %s' % kid, 'pos': None, 'result': 'unknown', 'solver_s': round(dt2, 3)})

    soft = [ob for ob in obls if ob.kind in ('unwind', 'unsupported')]
    if soft:
        batch(soft, {})
    hard = [ob for ob in obls if ob.kind in ('panic', 'assert')]
    groups = {}
    for ob in hard:
        sg = exclude(ctx, ob) if exclude else {}
        # only findings still listed in known_findings.json are excluded; a finding moved to "fixed" suppresses nothing
        sg = {k: v for k, v in sg.items() if v is not False and k in active_known()}
        groups.setdefault(tuple(sorted(sg)), ([], sg))[0].append(ob)
    for key, (grp, sg) in groups.items():
        batch(grp, sg)
    res['queries'] = nq
    res['solver_s'] = round(solver_s, 3)
    res['wall_s'] = round(time.time() - t0, 3)
    return res


def _job(args):
    ssa_path, fname, kw = args
    try:
        return run_harness(ssa_path, fname, **kw)
    except Exception as e:  # engine fault: report, never a verdict
        import traceback
        return Result(harness=fname, params=kw.get('params'), status='engine-error', error='%s\n%s' % (e, traceback.format_exc()[-3000:]), obligations=[])


def _die_with_parent():
    try:
        import ctypes
        import signal
        ctypes.CDLL('libc.so.6').prctl(1, signal.SIGKILL)   # PR_SET_PDEATHSIG
    except Exception:
        pass


def _limit_memory():
    """a job whose encoding explodes must end as inconclusive (MemoryError), not take the machine down"""
    try:
        import resource
        gb = float(os.environ.get('VERIF_JOB_MEM_GB', '8'))
        resource.setrlimit(resource.RLIMIT_AS, (int(gb * (1 << 30)), int(gb * (1 << 30))))
    except Exception:
        pass


def _child(conn, args):
    _die_with_parent()
    _limit_memory()
    try:
        r = _job(args)
        # models etc. are plain data; strip anything unpicklable defensively
        conn.send(json.loads(json.dumps(r, default=str)))
    except BaseException as e:   # noqa
        try:
            conn.send({'harness': args[1], 'params': args[2].get('params'), 'status': 'engine-error', 'error': repr(e), 'obligations': []})
        except Exception:
            pass
    finally:
        conn.close()


def run_jobs(ssa_path, jobs, nproc=None, job_timeout=None):
    """jobs: list of (fname, kwargs). One OS process per job (a crash or hang of one job cannot stall the others)."""
    nproc = nproc or int(os.environ.get('VERIF_NPROC', '16'))
    job_timeout = job_timeout or int(os.environ.get('VERIF_JOB_TIMEOUT', '420'))
    verbose = bool(os.environ.get('VERIF_VERBOSE'))
    ctx = mp.get_context('fork')
    results = [None] * len(jobs)
    pending = list(enumerate(jobs))
    running = {}
    while pending or running:
        while pending and len(running) < nproc:
            idx, (f, kw) = pending.pop(0)
            pc, cc = ctx.Pipe(duplex=False)
            p = ctx.Process(target=_child, args=(cc, (ssa_path, f, kw)))
            p.start()
            cc.close()
            running[idx] = (p, pc, time.time(), f, kw)
        done = []
        for idx, (p, pc, t0, f, kw) in running.items():
            if pc.poll(0):
                try:
                    results[idx] = Result(pc.recv())
                except EOFError:
                    results[idx] = Result(harness=f, params=kw.get('params'), status='engine-error', error='worker died without a result (exit code %s)' % p.exitcode, obligations=[])
                p.join(5)
                done.append(idx)
            elif not p.is_alive():
                results[idx] = Result(harness=f, params=kw.get('params'), status='engine-error', error='worker died (exit code %s)' % p.exitcode, obligations=[])
                done.append(idx)
            elif time.time() - t0 > job_timeout:
                p.kill()
                results[idx] = Result(harness=f, params=kw.get('params'), fixlen=kw.get('fixlen'), status='timeout', error='job exceeded %ds wall' % job_timeout, obligations=[])
                done.append(idx)
        for idx in done:
            p, pc, t0, f, kw = running.pop(idx)
            if verbose:
                r = results[idx]
                print('job %d/%d %s %s %s %.1fs %s' % (idx + 1, len(jobs), f.rsplit('.', 1)[-1], kw.get('params'), kw.get('fixlen'), time.time() - t0, r['status']), file=sys.stderr, flush=True)
        if not done:
            time.sleep(0.05)
    return results


def summarize(results):
    """fold obligation verdicts: returns dict(counts), list of violations, list of inconclusive"""
    counts = {'unsat': 0, 'sat': 0, 'unknown': 0, 'reach_sat': 0, 'reach_unsat': 0}
    viol, inc = [], []
    for r in results:
        if r['status'] != 'ok':
            inc.append({'harness': r['harness'], 'params': r.get('params'), 'why': r['status'], 'error': r.get('error', '')[:2000]})
            continue
        for o in r['obligations']:
            if o['kind'] == 'reach':
                counts['reach_sat' if o['result'] == 'sat' else 'reach_unsat'] += 1
                if o['result'] != 'sat':
                    inc.append({'harness': r['harness'], 'params': r.get('params'), 'why': 'vacuous: reachability witness %s is %s' % (o['name'], o['result'])})
                continue
            counts[o['result']] = counts.get(o['result'], 0) + 1
            if o['result'] == 'sat':
                if o['kind'] in ('unwind', 'unsupported'):
                    inc.append({'harness': r['harness'], 'params': r.get('params'), 'why': '%s: %s' % (o['kind'], o['name']), 'model': o.get('model')})
                else:
                    viol.append({'harness': r['harness'], 'params': r.get('params'), 'fixlen': r.get('fixlen'), 'kind': o['kind'], 'name': o['name'], 'pos': o['pos'],
                                 'model': o.get('model'), 'observed': o.get('observed')})
                    for mm in o.get('more_models', []):
                        viol.append({'harness': r['harness'], 'params': r.get('params'), 'fixlen': r.get('fixlen'), 'kind': o['kind'], 'name': o['name'], 'pos': o['pos'],
                                     'model': mm['model'], 'observed': mm.get('observed'), 'alternative_model': True})
            elif o['result'] == 'unknown':
                inc.append({'harness': r['harness'], 'params': r.get('params'), 'why': 'solver unknown/timeout on %s' % o['name']})
            for k in o.get('known', []):
                if k.get('unknown'):
                    inc.append({'harness': r['harness'], 'params': r.get('params'), 'why': 'solver unknown on known-finding class %s' % k['id']})
                else:
                    counts['known_sat'] = counts.get('known_sat', 0) + 1
                    viol.append({'harness': r['harness'], 'params': r.get('params'), 'fixlen': r.get('fixlen'), 'kind': o['kind'], 'name': o['name'], 'pos': o['pos'],
                                 'model': k['model'], 'observed': k.get('observed'), 'known_id': k['id']})
    return counts, viol, inc
