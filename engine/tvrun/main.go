// tvrun: runs the REAL assembler pipeline of /repo (parser, processors, rassemble, clean-up passes) on
// programs sent by the translation-validation checks. One job per line on stdin (JSON), one result per line on
// stdout. A job that ends the process (logger.Fatal -> os.Exit, panic) simply kills this worker; the Python side
// records that as the job's outcome and starts a new worker.
package main

import (
	"bufio"
	"encoding/json"
	"fmt"
	"os"
	"path/filepath"

	"github.com/coreruleset/crs-toolchain/v2/context"
	"github.com/coreruleset/crs-toolchain/v2/regex/operators"
	"github.com/coreruleset/crs-toolchain/v2/regex/processors"
	"github.com/rs/zerolog"
)

type job struct {
	ID    int               `json:"id"`
	Files map[string]string `json:"files"` // path relative to the CRS root -> content
	Src   string            `json:"src"`
	Runs  int               `json:"runs"` // repeat in-process (fresh context each time) and report distinct outputs
}
type result struct {
	ID   int      `json:"id"`
	Out  string   `json:"out"`
	Err  string   `json:"err,omitempty"`
	Outs []string `json:"outs,omitempty"`
}

func main() {
	zerolog.SetGlobalLevel(zerolog.FatalLevel)
	in := bufio.NewReaderSize(os.Stdin, 1<<20)
	out := bufio.NewWriter(os.Stdout)
	for {
		line, err := in.ReadBytes('\n')
		if len(line) == 0 && err != nil {
			return
		}
		var j job
		if e := json.Unmarshal(line, &j); e != nil {
			fmt.Fprintln(os.Stderr, "bad job:", e)
			return
		}
		// announce the job so that the parent knows which one killed us
		fmt.Fprintf(os.Stderr, "START %d\n", j.ID)
		root, _ := os.MkdirTemp("", "verif-tv-")
		for _, d := range []string{"regex-assembly/include", "regex-assembly/exclude", "rules"} {
			os.MkdirAll(filepath.Join(root, d), 0o755)
		}
		for p, c := range j.Files {
			fp := filepath.Join(root, p)
			os.MkdirAll(filepath.Dir(fp), 0o755)
			os.WriteFile(fp, []byte(c), 0o644)
		}
		res := result{ID: j.ID}
		runs := j.Runs
		if runs < 1 {
			runs = 1
		}
		seen := map[string]bool{}
		for k := 0; k < runs; k++ {
			ctx := processors.NewContext(context.New(root, "toolchain.yaml"))
			o, e := operators.NewAssembler(ctx).Run(j.Src)
			if k == 0 {
				res.Out = o
				if e != nil {
					res.Err = e.Error()
				}
			}
			key := o
			if e != nil {
				key = "ERR:" + e.Error()
			}
			if !seen[key] {
				seen[key] = true
				res.Outs = append(res.Outs, key)
			}
		}
		os.RemoveAll(root)
		b, _ := json.Marshal(res)
		out.Write(b)
		out.WriteByte('\n')
		out.Flush()
		if err != nil {
			return
		}
	}
}
