module verif/tvrun

go 1.23.0

require (
	github.com/coreruleset/crs-toolchain/v2 v2.0.0
	github.com/rs/zerolog v1.34.0
)

require (
	dario.cat/mergo v1.0.1 // indirect
	github.com/itchyny/rassemble-go v0.1.2 // indirect
	github.com/mattn/go-colorable v0.1.13 // indirect
	github.com/mattn/go-isatty v0.0.20 // indirect
	golang.org/x/sys v0.30.0 // indirect
	gopkg.in/yaml.v3 v3.0.1 // indirect
)

replace github.com/coreruleset/crs-toolchain/v2 => /repo
