"""E2: exact leftmost-first match/submatch oracle for Go's regexp, generic over concrete/symbolic
byte strings.  Built from the *compiled program* (regexp/syntax.Prog) that Go itself executes,
obtained from rxtool for the pattern text found in the current source.

match(prog, s, frm=0) -> (matched, caps)   caps: list of 2*(ngroups+1) position values (-1 = unset)
ASCII subjects only (byte == rune); \\b/\\B and programs with epsilon cycles are rejected.
"""
import json
import subprocess
import os
import zz as z3
from sym import *

RXTOOL = os.path.join(os.path.dirname(os.path.abspath(__file__)), '..', '.build', 'rxtool')
_prog_cache = {}


class Unsupported(Exception):
    pass


def load_progs(patterns):
    need = [p for p in patterns if p not in _prog_cache]
    if need:
        out = subprocess.run([RXTOOL, 'prog'], input=json.dumps(need), capture_output=True, text=True, check=True).stdout
        for p, pr in zip(need, json.loads(out)):
            if pr.get('error'):
                _prog_cache[p] = None
            else:
                pr['post'] = _topo(pr)
                _prog_cache[p] = pr
    return [_prog_cache[p] for p in patterns]


def prog_of(pattern):
    return load_progs([pattern])[0]


def go_match(pattern, strings):
    """FindSubmatchIndex by the real Go regexp for a list of byte strings (used for self-tests)."""
    inp = json.dumps({'pattern': pattern, 'inputs': [s.hex() for s in strings]})
    out = subprocess.run([RXTOOL, 'match'], input=inp, capture_output=True, text=True, check=True).stdout
    return json.loads(out)


def _ranges(inst):
    r = inst.get('rune') or []
    op = inst['op']
    if op == 'InstRuneAny':
        return [(0, 127)]
    if op == 'InstRuneAnyNotNL':
        return [(0, 9), (11, 127)]
    if op == 'InstRune1' or (op == 'InstRune' and len(r) == 1):
        c = r[0]
        rs = [(c, c)]
        if inst.get('fold'):
            if 65 <= c <= 90:
                rs.append((c + 32, c + 32))
            if 97 <= c <= 122:
                rs.append((c - 32, c - 32))
        return [(lo, min(hi, 127)) for lo, hi in rs if lo <= 127]
    rs = [(r[i], r[i + 1]) for i in range(0, len(r), 2)]
    if inst.get('fold'):
        ext = []
        for lo, hi in rs:
            for c in range(max(lo, 65), min(hi, 90) + 1):
                ext.append((c + 32, c + 32))
            for c in range(max(lo, 97), min(hi, 122) + 1):
                ext.append((c - 32, c - 32))
        rs = rs + ext
    return [(lo, min(hi, 127)) for lo, hi in rs if lo <= 127]


def _eps_succ(inst):
    op = inst['op']
    if op in ('InstAlt', 'InstAltMatch'):
        return [inst['out'], inst['arg']]
    if op in ('InstCapture', 'InstNop', 'InstEmptyWidth'):
        return [inst['out']]
    return []


def _topo(prog):
    insts = prog['inst']
    n = len(insts)
    state = [0] * n
    order = []
    import sys
    sys.setrecursionlimit(10000)

    def dfs(u):
        state[u] = 1
        for v in _eps_succ(insts[u]):
            if state[v] == 1:
                raise Unsupported('epsilon cycle in %r' % prog['pattern'])
            if state[v] == 0:
                dfs(v)
        state[u] = 2
        order.append(u)
    for u in range(n):
        if state[u] == 0:
            dfs(u)
    return order


def _byte_in(b, ranges):
    if is_c(b):
        return any(lo <= b <= hi for lo, hi in ranges)
    alts = []
    blo, bhi = get_lb(b) or 0, get_ub(b)
    if bhi is None:
        bhi = 255
    for lo, hi in ranges:
        if hi < blo or lo > bhi:
            continue
        if lo <= blo and hi >= bhi:
            return True
        if lo == hi:
            alts.append(b == lo)
        elif lo == 0:
            alts.append(z3.ULE(b, hi))
        else:
            alts.append(z3.And(z3.UGE(b, lo), z3.ULE(b, hi)))
    return b_or(*alts)


PB = 16  # width of position terms inside the oracle


def match(prog, s, frm=0):
    """Leftmost-first match of prog on Str s, searching from position frm (int or BV64 term)."""
    if prog is None:
        raise Unsupported('pattern does not compile')
    insts = prog['inst']
    n = len(insts)
    post = prog['post']
    N = s.cap
    b = s.b
    ln = s.ln
    lnc = is_c(ln)

    def le_len(p):  # p <= len
        return (p <= ln) if lnc else i_cmp('<=', p, ln, W, True)

    def lt_len(p):
        return (p < ln) if lnc else i_cmp('<', p, ln, W, True)

    def eq_len(p):
        return (p == ln) if lnc else i_cmp('==', p, ln, W, True)

    def empty_ok(flags, p):
        conds = []
        if flags & 1:
            conds.append(True if p == 0 else i_cmp('==', b[p - 1], 10, 8, False))
        if flags & 2:
            conds.append(b_or(eq_len(p), i_cmp('==', b[p], 10, 8, False) if p < N else False))
        if flags & 4:
            conds.append(p == 0)
        if flags & 8:
            conds.append(eq_len(p))
        if flags & 48:
            raise Unsupported('word boundary')
        return b_and(*conds)

    reach = [[None] * n for _ in range(N + 2)]
    for pc in range(n):
        reach[N + 1][pc] = False
    rng = [(_ranges(i) if i['op'].startswith('InstRune') else None) for i in insts]
    for p in range(N, -1, -1):
        inb = le_len(p)
        row = reach[p]
        nxt = reach[p + 1]
        if inb is False:
            for pc in range(n):
                row[pc] = False
            continue
        ltl = lt_len(p) if p < N else False
        for pc in post:
            i = insts[pc]
            op = i['op']
            if op == 'InstMatch':
                v = inb
            elif op == 'InstFail':
                v = False
            elif op in ('InstAlt', 'InstAltMatch'):
                v = b_or(row[i['out']], row[i['arg']])
            elif op in ('InstCapture', 'InstNop'):
                v = row[i['out']]
            elif op == 'InstEmptyWidth':
                v = b_and(inb, empty_ok(i['arg'], p), row[i['out']])
            else:
                if p < N and ltl is not False and nxt[i['out']] is not False:
                    v = b_and(ltl, _byte_in(b[p], rng[pc]), nxt[i['out']])
                else:
                    v = False
            row[pc] = v
    st = prog['start']
    ncap = prog['numcap']
    # leftmost start >= frm
    vis = [[False] * n for _ in range(N + 2)]
    earlier = False
    starts = []
    frmc = is_c(frm)
    for p in range(N + 1):
        ok = reach[p][st]
        if frmc:
            if p < frm:
                ok = False
        else:
            ok = b_and(ok, i_cmp('<=', frm, p, W, True))
        here = b_and(ok, b_not(earlier))
        starts.append(here)
        vis[p][st] = here
        earlier = b_or(earlier, ok)
    matched = earlier
    UNSET = (1 << PB) - 1
    caps = [UNSET] * ncap

    def setcap(k, cond, p):
        caps[k] = ite(cond, p, caps[k], PB)
    pre = list(reversed(post))
    for p in range(N + 1):
        vp = vis[p]
        rp = reach[p]
        for pc in pre:
            v = vp[pc]
            if v is False:
                continue
            i = insts[pc]
            op = i['op']
            if op == 'InstMatch':
                setcap(1, v, p)
            elif op in ('InstAlt', 'InstAltMatch'):
                ro = rp[i['out']]
                takeout = b_and(v, ro)
                takearg = b_and(v, b_not(ro))
                vp[i['out']] = b_or(vp[i['out']], takeout)
                vp[i['arg']] = b_or(vp[i['arg']], takearg)
            elif op == 'InstCapture':
                if i['arg'] < ncap:
                    setcap(i['arg'], v, p)
                vp[i['out']] = b_or(vp[i['out']], v)
            elif op in ('InstNop', 'InstEmptyWidth'):
                vp[i['out']] = b_or(vp[i['out']], v)
            elif op == 'InstFail':
                pass
            else:
                if p < N:
                    vis[p + 1][i['out']] = b_or(vis[p + 1][i['out']], v)
    for p in range(N + 1):
        setcap(0, starts[p], p)
    # widen positions to W bits; unset -> -1
    out = []
    for c in caps:
        if is_c(c):
            out.append(-1 if c == UNSET else c)
        else:
            r = z3.If(c == UNSET, z3.BitVecVal(mask(W), W), z3.ZeroExt(W - PB, c))
            out.append(r)
    return matched, out, caps


def selftest(pattern, alphabet, maxlen):
    """exhaustive differential test of the oracle (concrete algebra) against Go's regexp"""
    import itertools
    prog = prog_of(pattern)
    strs = [bytes(t) for L in range(maxlen + 1) for t in itertools.product(alphabet, repeat=L)]
    go = go_match(pattern, strs)
    bad = 0
    for sx, g in zip(strs, go):
        m, caps, _ = match(prog, s_const(sx))
        mine = None if not m else list(caps)
        if mine != g:
            bad += 1
            if bad < 4:
                print('PIKE MISMATCH', pattern, sx, g, mine)
    return len(strs), bad
