"""Build the overlay directory (harness files + generated API files per package) and the
go-test overlay JSON used for native replay."""
import json
import os
import shutil

HERE = os.path.dirname(os.path.abspath(__file__))
ROOT = os.path.dirname(HERE)
HARN = os.path.join(ROOT, 'harness')


def pkgname(rel):
    return os.path.basename(rel) if rel else 'main'


def build(outdir, repo='/repo'):
    if os.path.isdir(outdir):
        shutil.rmtree(outdir)
    replace = {}
    tmpl = open(os.path.join(HARN, '_api', 'zz_verif_api.go.tmpl')).read()
    ttmpl = open(os.path.join(HARN, '_api', 'zz_verif_replay_test.go.tmpl')).read()
    for dirpath, dirs, files in os.walk(HARN):
        rel = os.path.relpath(dirpath, HARN)
        if rel.startswith('_') or rel == '.':
            continue
        gos = [f for f in files if f.endswith('.go')]
        if not gos:
            continue
        dst = os.path.join(outdir, rel)
        os.makedirs(dst, exist_ok=True)
        for f in gos:
            shutil.copy(os.path.join(dirpath, f), os.path.join(dst, f))
            replace[os.path.join(repo, rel, f)] = os.path.join(dst, f)
        pn = pkgname(rel)
        for name, t in (('zz_verif_api.go', tmpl), ('zz_verif_replay_test.go', ttmpl)):
            with open(os.path.join(dst, name), 'w') as fh:
                fh.write(t.replace('PKGNAME', pn))
            replace[os.path.join(repo, rel, name)] = os.path.join(dst, name)
    ov = os.path.join(outdir, 'overlay.json')
    json.dump({'Replace': replace}, open(ov, 'w'), indent=1)
    return ov
