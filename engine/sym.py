"""Term layer for gobmc: concrete-folding wrappers over z3 bit-vectors/booleans and
capacity-bounded symbolic byte strings (vector of byte terms + length term).

Conventions
  * an integer value is a Python int (concrete, already reduced to its type's range) or a z3 BitVecRef
  * a boolean value is a Python bool or a z3 BoolRef
  * Str: bytes (list of ints / BV8 terms, len == cap), ln (int / BV64 term), invariant ln <= cap
"""
import zz as z3

W = 64  # width of Go int / length terms


def is_c(v):
    return isinstance(v, (int, bool))


def _cv(t, bits, signed):
    """folded bit-vector constant -> Python int of the value's type"""
    if isinstance(t, z3.ExprRef) and t.op == 'bv':
        return norm(t.p, bits, signed)
    return t


def mask(bits):
    return (1 << bits) - 1


def norm(v, bits, signed):
    v &= mask(bits)
    if signed and v >> (bits - 1):
        v -= 1 << bits
    return v


def bv(v, bits):
    if isinstance(v, bool):
        raise TypeError("bool where int expected")
    if isinstance(v, int):
        return z3.BitVecVal(v & mask(bits), bits)
    if v.size() != bits:
        r = _retype(v, bits)
        if r is None:
            raise TypeError("width mismatch %d vs %d: %s" % (v.size(), bits, v))
        return r
    return v


def _retype(v, bits):
    """A tree of ite nodes over constants that was built from concrete Python ints whose Go width was not known at
    the merge point (default width W) is rebuilt at the width the consumer needs. Every leaf must fit (as a signed or
    unsigned value of `bits` bits); anything else is a genuine width error."""
    if not z3._ctree(v):
        return None
    fw = v.size()

    def go(t):
        if t.op == 'bv':
            x = t.p
            sx = x - (1 << fw) if x >> (fw - 1) else x
            if not (-(1 << (bits - 1)) <= sx < (1 << bits)):
                raise OverflowError
            return z3.BitVecVal(sx & mask(bits), bits)
        return z3.If(t.args[0], go(t.args[1]), go(t.args[2]))
    try:
        return go(v)
    except OverflowError:
        return None


def bl(v):
    if isinstance(v, bool):
        return z3.BoolVal(v)
    return v


# ---- upper bounds side table (cheap interval knowledge for length terms) ----
_UB = {}


def set_ub(t, ub, lb=0):
    if not is_c(t):
        _UB[t.get_id()] = (t, ub, lb)
    return t


def get_ub(t):
    if is_c(t):
        return t
    e = _UB.get(t.get_id())
    return e[1] if e else None


def get_lb(t):
    if is_c(t):
        return t
    e = _UB.get(t.get_id())
    return e[2] if e else None


# ---- booleans ----
def b_not(a):
    if isinstance(a, bool):
        return not a
    if z3.is_true(a):
        return False
    if z3.is_false(a):
        return True
    if z3.is_not(a):
        return a.arg(0)
    return z3.Not(a)


def _cb(a):
    if isinstance(a, bool):
        return a
    if z3.is_true(a):
        return True
    if z3.is_false(a):
        return False
    return a


def b_and(*xs):
    out = []
    seen = set()
    for x in xs:
        x = _cb(x)
        if x is True:
            continue
        if x is False:
            return False
        i = x.get_id()
        if i in seen:
            continue
        seen.add(i)
        out.append(x)
    if not out:
        return True
    if len(out) == 1:
        return out[0]
    return z3.And(*out)


def b_or(*xs):
    out = []
    seen = set()
    for x in xs:
        x = _cb(x)
        if x is False:
            continue
        if x is True:
            return True
        i = x.get_id()
        if i in seen:
            continue
        seen.add(i)
        out.append(x)
    if not out:
        return False
    if len(out) == 1:
        return out[0]
    return z3.Or(*out)


def b_implies(a, b):
    return b_or(b_not(a), b)


def same(a, b):
    if a is b:
        return True
    ca, cb = is_c(a), is_c(b)
    if ca and cb:
        return type(a) == type(b) and a == b
    if ca or cb:
        return False
    if isinstance(a, z3.ExprRef) and isinstance(b, z3.ExprRef):
        return a.get_id() == b.get_id()
    return False


def ite(c, a, b, bits=None):
    """ite over ints/bools (a, b same sort)."""
    c = _cb(c)
    if c is True:
        return a
    if c is False:
        return b
    if same(a, b):
        return a
    if isinstance(a, bool) or isinstance(b, bool) or z3.is_bool(a) or z3.is_bool(b):
        if a is True and b is False:
            return c
        if a is False and b is True:
            return b_not(c)
        if a is True:
            return b_or(c, b)
        if a is False:
            return b_and(b_not(c), b)
        if b is True:
            return b_or(b_not(c), a)
        if b is False:
            return b_and(c, a)
        return z3.If(c, bl(a), bl(b))
    if bits is None:
        bits = a.size() if not is_c(a) else (b.size() if not is_c(b) else W)
    r = z3.If(c, bv(a, bits), bv(b, bits))
    if r.op == 'bv':
        return norm(r.p, bits, (is_c(a) and a < 0) or (is_c(b) and b < 0))
    ua, ub = get_ub(a), get_ub(b)
    if ua is not None and ub is not None and isinstance(ua, int) and isinstance(ub, int):
        if ua >= 0 and ub >= 0:
            la, lb2 = get_lb(a), get_lb(b)
            set_ub(r, max(ua, ub), min(la or 0, lb2 or 0))
    return r


# ---- integers ----
def i_bin(op, a, b, bits, signed):
    ca, cb = is_c(a), is_c(b)
    if ca and cb:
        if op == '+':
            return norm(a + b, bits, signed)
        if op == '-':
            return norm(a - b, bits, signed)
        if op == '*':
            return norm(a * b, bits, signed)
        if op == '/':
            if b == 0:
                raise ZeroDivisionError
            q = abs(a) // abs(b)
            return norm(q if (a < 0) == (b < 0) else -q, bits, signed)
        if op == '%':
            if b == 0:
                raise ZeroDivisionError
            r = abs(a) % abs(b)
            return norm(r if a >= 0 else -r, bits, signed)
        if op == '&':
            return norm(a & b, bits, signed)
        if op == '|':
            return norm(a | b, bits, signed)
        if op == '^':
            return norm(a ^ b, bits, signed)
        if op == '&^':
            return norm(a & ~b, bits, signed)
        if op == '<<':
            return norm(a << b, bits, signed) if b < bits else 0
        if op == '>>':
            return norm(a >> b, bits, signed) if b < bits else (norm(-1 if a < 0 else 0, bits, signed))
        raise NotImplementedError(op)
    return _cv(_i_bin(op, a, b, bits, signed, ca, cb), bits, signed)


def _i_bin(op, a, b, bits, signed, ca, cb):
    x, y = bv(a, bits), bv(b, bits)
    if op == '+':
        if cb and b == 0:
            return a
        if ca and a == 0:
            return b
        r = x + y
        ua, ub = get_ub(a), get_ub(b)
        if ua is not None and ub is not None and ua >= 0 and ub >= 0 and ua + ub < (1 << (bits - 1)):
            set_ub(r, ua + ub)
        return r
    if op == '-':
        if cb and b == 0:
            return a
        r = x - y
        ua = get_ub(a)
        if ua is not None and cb and b >= 0:
            # only a bound if no wrap; a - b <= ua - b when a >= b (caller's concern); keep conservative: none
            pass
        return r
    if op == '*':
        return x * y
    if op == '/':
        return (x / y) if signed else z3.UDiv(x, y)
    if op == '%':
        return z3.SRem(x, y) if signed else z3.URem(x, y)
    if op == '&':
        return x & y
    if op == '|':
        return x | y
    if op == '^':
        return x ^ y
    if op == '&^':
        return x & ~y
    if op == '<<':
        return x << y
    if op == '>>':
        return (x >> y) if signed else z3.LShR(x, y)
    raise NotImplementedError(op)


def i_cmp(op, a, b, bits, signed):
    ca, cb = is_c(a), is_c(b)
    if ca and cb:
        return {'==': a == b, '!=': a != b, '<': a < b, '<=': a <= b, '>': a > b, '>=': a >= b}[op]
    # interval shortcuts for length-like terms (non-negative, bounded above)
    if signed or True:
        ua, ub = get_ub(a), get_ub(b)
        if ca and ub is not None and not cb:
            lb_ = get_lb(b)
            if lb_:
                if op == '==' and a < lb_:
                    return False
                if op == '!=' and a < lb_:
                    return True
                if op == '<' and a < lb_:
                    return True
                if op == '<=' and a <= lb_:
                    return True
                if op == '>' and a <= lb_:
                    return False
                if op == '>=' and a < lb_:
                    return False
            # compare constant a with term b in [0, ub]
            if op == '<' and a >= ub:
                return False
            if op == '<=' and a > ub:
                return False
            if op == '>' and a >= ub:
                return True
            if op == '>=' and a > ub:
                return True
            if op == '==' and (a > ub or a < 0):
                return False
            if op == '!=' and (a > ub or a < 0):
                return True
            if op == '<=' and a <= 0 and a >= 0:
                return True   # 0 <= b
            if op == '>' and a < 0:
                return False
            if op == '<' and a < 0:
                return True
        if cb and ua is not None and not ca:
            la_ = get_lb(a)
            if la_:
                if op == '==' and b < la_:
                    return False
                if op == '!=' and b < la_:
                    return True
                if op == '>' and b < la_:
                    return True
                if op == '>=' and b <= la_:
                    return True
                if op == '<' and b <= la_:
                    return False
                if op == '<=' and b < la_:
                    return False
            if op == '>' and b >= ua:
                return False
            if op == '>=' and b > ua:
                return False
            if op == '<' and b > ua:
                return True
            if op == '<=' and b >= ua:
                return True
            if op == '==' and (b > ua or b < 0):
                return False
            if op == '!=' and (b > ua or b < 0):
                return True
            if op == '>=' and b <= 0:
                return True
            if op == '<' and b <= 0:
                return False
    x, y = bv(a, bits), bv(b, bits)
    if op == '==':
        return _cb(z3.simplify(x == y)) if (ca or cb) and False else (x == y)
    if op == '!=':
        return x != y
    if signed:
        return {'<': x < y, '<=': x <= y, '>': x > y, '>=': x >= y}[op]
    return {'<': z3.ULT(x, y), '<=': z3.ULE(x, y), '>': z3.UGT(x, y), '>=': z3.UGE(x, y)}[op]


def i_conv(v, fbits, fsigned, tbits, tsigned):
    if is_c(v):
        return norm(v, tbits, tsigned)
    if tbits == fbits:
        return v
    if tbits < fbits:
        return _cv(z3.Extract(tbits - 1, 0, v), tbits, tsigned)
    r = z3.SignExt(tbits - fbits, v) if fsigned else z3.ZeroExt(tbits - fbits, v)
    su, sl = get_ub(v), get_lb(v)
    if su is not None and su < (1 << (fbits - 1)):
        set_ub(r, su, sl or 0)
    elif not fsigned:
        set_ub(r, mask(fbits))
    return r


# ---- strings ----
class Str:
    __slots__ = ('b', 'ln', 'meta')

    def __init__(self, b, ln, meta=None):
        self.b = b
        self.ln = ln
        self.meta = meta
        if not is_c(ln):
            set_ub(ln, len(b))

    @property
    def cap(self):
        return len(self.b)

    def is_conc(self):
        return is_c(self.ln) and all(is_c(x) for x in self.b[:self.ln])

    def conc(self):
        return bytes(self.b[:self.ln])

    def at(self, p):
        return self.b[p] if p < len(self.b) else 0

    def __repr__(self):
        if self.is_conc():
            return 'Str(%r)' % self.conc()
        return 'Str<cap=%d,ln=%s>' % (self.cap, self.ln if is_c(self.ln) else 'sym')


def s_const(t):
    if isinstance(t, str):
        t = t.encode('utf-8')
    return Str(list(t), len(t))


EMPTY = s_const(b'')


def s_fresh(name, cap, ln=None):
    b = [z3.BitVec('%s_%d' % (name, i), 8) for i in range(cap)]
    if ln is None:
        ln = z3.BitVec('%s_len' % name, W)
    return Str(b, ln)


def s_trim(s):
    """drop bytes beyond a concrete length"""
    if is_c(s.ln) and s.cap != s.ln:
        return Str(s.b[:s.ln], s.ln, s.meta)
    return s


def s_len(s):
    return s.ln


def s_ite(c, a, b):
    c = _cb(c)
    if c is True:
        return a
    if c is False:
        return b
    if a is b:
        return a
    cap = max(a.cap, b.cap)
    if is_c(a.ln) and is_c(b.ln) and a.ln == b.ln:
        cap = a.ln
    return Str([ite(c, a.at(p), b.at(p), 8) for p in range(cap)], ite(c, a.ln, b.ln, W))


def s_eq(a, b):
    if is_c(a.ln) and is_c(b.ln):
        if a.ln != b.ln:
            return False
        return b_and(*[i_cmp('==', a.b[p], b.b[p], 8, False) for p in range(a.ln)])
    cap = min(a.cap, b.cap)
    # lengths equal and <= cap of both
    conds = [i_cmp('==', a.ln, b.ln, W, True)]
    for p in range(cap):
        conds.append(b_or(i_cmp('<=', a.ln, p, W, True), i_cmp('==', a.at(p), b.at(p), 8, False)))
    # if one has larger cap, equality of lengths already forces ln <= min cap
    if a.cap != b.cap:
        big = a if a.cap > b.cap else b
        conds.append(i_cmp('<=', big.ln, cap, W, True))
    return b_and(*conds)


def vals_of(t, limit=12):
    """feasible values of a length/position term when it is a small constant tree, else None"""
    if is_c(t):
        return [t]
    lv = z3.leaves(t)
    if lv is None or len(lv) > limit:
        return None
    return sorted(norm(v, t.size(), True) for v in lv)


def s_byte(s, i):
    """byte at (possibly symbolic) index; caller checks bounds"""
    if is_c(i):
        return s.b[i] if 0 <= i < s.cap else 0
    vs = vals_of(i)
    if vs is not None:
        r = 0
        for v in vs:
            if 0 <= v < s.cap:
                r = ite(i == v, s.b[v], r, 8)
        return r
    r = 0
    for p in range(s.cap - 1, -1, -1):
        r = ite(i == p, s.b[p], r, 8)
    return r


def _bits_of(t, maxv):
    """conditions for the binary digits of term t (LSB first), enough digits to represent maxv"""
    n = max(1, int(maxv).bit_length())
    return [z3.Extract(k, k, t) == 1 for k in range(n)]


def s_concat(a, b):
    if is_c(a.ln):
        return Str(a.b[:a.ln] + b.b, i_bin('+', a.ln, b.ln, W, True))
    if b.cap == 0 or (is_c(b.ln) and b.ln == 0):
        return a
    vs = vals_of(a.ln)
    if vs is not None:
        vs = [v for v in vs if 0 <= v <= a.cap]
        r = None
        for v in vs:
            cand = Str(a.b[:v] + b.b, i_bin('+', v, b.ln, W, True))
            r = cand if r is None else s_ite(a.ln == v, cand, r)
        if r is not None:
            return r
    cap = a.cap + b.cap
    # barrel shifter: B[p] = b[p - a.ln]
    B = list(b.b) + [0] * a.cap
    for k, bit in enumerate(_bits_of(a.ln, a.cap)):
        sh = 1 << k
        B = [ite(bit, B[p - sh] if p >= sh else 0, B[p], 8) for p in range(cap)]
    out = []
    for p in range(cap):
        if p < a.cap:
            out.append(ite(i_cmp('<', p, a.ln, W, True), a.b[p], B[p], 8))
        else:
            out.append(B[p])
    return Str(out, i_bin('+', a.ln, b.ln, W, True))


def s_concat_all(parts):
    """balanced concatenation (keeps the shifter depth logarithmic)"""
    parts = [p for p in parts if not (is_c(p.ln) and p.ln == 0)]
    if not parts:
        return EMPTY
    # first glue runs of concrete-length pieces (free)
    glued = []
    for p in parts:
        if glued and is_c(glued[-1].ln) and is_c(p.ln):
            q = glued[-1]
            glued[-1] = Str(q.b[:q.ln] + p.b[:p.ln], q.ln + p.ln)
        else:
            glued.append(p)
    parts = glued
    while len(parts) > 1:
        nxt = []
        for i in range(0, len(parts) - 1, 2):
            nxt.append(s_concat(parts[i], parts[i + 1]))
        if len(parts) % 2:
            nxt.append(parts[-1])
        parts = nxt
    return parts[0]


def s_substr(s, lo, hi):
    """s[lo:hi]; caller guarantees 0 <= lo <= hi <= len(s)."""
    if is_c(lo) and is_c(hi):
        return Str(s.b[lo:hi] + [0] * max(0, (hi - lo) - len(s.b[lo:hi])), hi - lo)
    if is_c(lo):
        ln = i_bin('-', hi, lo, W, True)
        if not is_c(ln):
            vh = vals_of(hi)
            if vh is not None:
                return Str(s.b[lo:max(lo, min(s.cap, max(vh)))], ln)
        return Str(s.b[lo:], ln)
    vs = vals_of(lo)
    if vs is not None:
        vs = [v for v in vs if 0 <= v <= s.cap]
        r = None
        for v in vs:
            cand = s_substr(s, v, hi)
            r = cand if r is None else s_ite(lo == v, cand, r)
        if r is not None:
            return r
    cap = s.cap
    ub_lo = get_ub(lo)
    maxlo = min(cap, ub_lo) if ub_lo is not None else cap
    out = list(s.b)
    for k, bit in enumerate(_bits_of(lo, maxlo)):
        sh = 1 << k
        out = [ite(bit, out[p + sh] if p + sh < cap else 0, out[p], 8) for p in range(cap)]
    ln = i_bin('-', hi, lo, W, True)
    if not is_c(ln):
        set_ub(ln, cap)
    return Str(out, ln)


def s_narrow(s, cap):
    """reduce capacity (caller knows ln <= cap)."""
    if s.cap <= cap:
        return s
    ln = s.ln
    if not is_c(ln):
        set_ub(ln, cap)
    return Str(s.b[:cap], ln)


def s_lt(a, b):
    """lexicographic a < b"""
    cap = max(a.cap, b.cap)
    res = i_cmp('<', a.ln, b.ln, W, True)  # all common bytes equal: shorter is smaller
    # process from the back
    for p in range(cap - 1, -1, -1):
        ina = i_cmp('<', p, a.ln, W, True)
        inb = i_cmp('<', p, b.ln, W, True)
        both = b_and(ina, inb)
        lt = i_cmp('<', a.at(p), b.at(p), 8, False)
        eq = i_cmp('==', a.at(p), b.at(p), 8, False)
        res = ite(both, ite(lt, True, ite(eq, res, False)), i_cmp('<', a.ln, b.ln, W, True))
    return res


def s_has_prefix(s, pre):
    conds = [i_cmp('>=', s.ln, pre.ln, W, True)]
    for p in range(pre.cap):
        conds.append(b_or(i_cmp('<=', pre.ln, p, W, True), i_cmp('==', s.at(p), pre.b[p], 8, False)))
    return b_and(*conds)


def s_has_suffix(s, suf):
    # s[len-suf.ln:] == suf
    ok = i_cmp('>=', s.ln, suf.ln, W, True)
    if ok is False:
        return False
    start = i_bin('-', s.ln, suf.ln, W, True)
    tail = s_substr(s, start, s.ln) if not (is_c(start) and start < 0) else EMPTY
    return b_and(ok, s_eq(s_narrow(tail, suf.cap) if True else tail, suf))


def s_value(model, s):
    """concrete bytes of s under a z3 model"""
    def ev(t, bits):
        if is_c(t):
            return t
        return model.eval(t, model_completion=True).as_long()
    L = ev(s.ln, W)
    L = min(L, s.cap)
    return bytes(ev(s.b[i], 8) for i in range(L))


def ev_int(model, t, signed=False, bits=None):
    if is_c(t):
        return t
    v = model.eval(t, model_completion=True)
    if isinstance(v, bool):
        return v
    n = v.as_long()
    if signed:
        n = norm(n, v.size(), True)
    return n


def s_contains(s, needle):
    """condition: concrete byte string `needle` occurs in Str s"""
    n = needle if isinstance(needle, bytes) else needle.encode()
    L = len(n)
    alts = []
    for p in range(s.cap - L + 1):
        alts.append(b_and(i_cmp('<=', p + L, s.ln, W, True), *[i_cmp('==', s.b[p + k], n[k], 8, False) for k in range(L)]))
    return b_or(*alts)
