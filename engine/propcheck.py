"""Per-property check scaffolding: run harness jobs, replay counterexamples natively, apply the
known-findings protocol, write evidence, print verdict lines and choose the exit status."""
import json
import os
import re
import subprocess
import sys
import time
import shutil
import tempfile

HERE = os.path.dirname(os.path.abspath(__file__))
ROOT = os.path.dirname(HERE)
sys.path.insert(0, HERE)
import runner
import overlay
from runner import MOD, REPO, GOENV, OUT

KNOWN = os.path.join(ROOT, 'known_findings.json')


def load_known(pid):
    if not os.path.exists(KNOWN):
        return [], []
    d = json.load(open(KNOWN))
    return [f for f in d.get('findings', []) if f['property'] == pid], [f for f in d.get('fixed', []) if f.startswith('fixed: property=%s ' % pid)]


class Check:
    def __init__(self, pid, tier, level='model_checking'):
        self.pid = pid
        self.tier = tier
        self.level = level
        self.seed = int(os.environ.get('VERIF_SEED', '0') or 0)
        self.t0 = time.time()
        self.groups = []          # per harness group summaries
        self.violations = []      # confirmed (replayed) violations not covered by a known finding
        self.unconfirmed = []     # solver models that did not reproduce (encoder/stub fault) -> inconclusive
        self.inconclusive = []
        self.known_seen = []
        self.stale = []
        self.samples = []
        self.assumptions = []
        self.functions = set()
        self.patterns = set()
        self.notes = set()
        self.counts = {'unsat': 0, 'sat': 0, 'unknown': 0, 'reach_sat': 0, 'reach_unsat': 0}
        self.queries = 0
        self.solver_s = 0.0
        self.bounds = {}
        self.extra = {}
        self.replays = []
        self.known, self.fixed = load_known(pid)
        self.ovdir = os.path.join(OUT, 'overlay-%s-%d' % (pid, os.getpid()))
        self.ovjson = overlay.build(self.ovdir, REPO)
        self.ssa, self.ssa_s = runner.build_ssa(self.ovdir, tag='-%s-%d' % (pid, os.getpid()))
        self.testbins = {}
        self.replay_dir = os.path.join(OUT, 'replays', pid)
        os.makedirs(self.replay_dir, exist_ok=True)
        self.nreplay = 0
        self.replay_repeat = None
        self.max_replays_per_obligation = 3
        self.died_confirms = True   # a replay that kills the process confirms a violation (not for checks that EXPECT a loud exit)
        self.scratch = tempfile.mkdtemp(prefix='verif-%s-' % pid)
        self.rtmp = os.path.join(self.scratch, 'tmp')   # TMPDIR of native replays (removed with the scratch directory)
        os.makedirs(self.rtmp, exist_ok=True)

    # ------------------------------------------------------------ running harnesses
    def run(self, group, jobs, nproc=None, bounds=None, job_timeout=None):
        """jobs: list of (short harness name with package, kwargs)"""
        t = time.time()
        only = os.environ.get('VERIF_DEV_GROUPS')     # development aid only: run a subset of the job groups (never set by ./check or MANIFEST)
        if only and group not in only.split(','):
            self.extra.setdefault('groups_skipped_by_VERIF_DEV_GROUPS', []).append(group)
            return [], []
        full = [(MOD + '/' + f, kw) for f, kw in jobs]
        rs = runner.run_jobs(self.ssa, full, nproc, job_timeout)
        counts, viol, inc = runner.summarize(rs)
        for k, v in counts.items():
            self.counts[k] = self.counts.get(k, 0) + v
        for r in rs:
            self.queries += r.get('queries', 0)
            self.solver_s += r.get('solver_s', 0.0)
            self.functions.update(r.get('funcs_encoded', []))
            self.patterns.update(r.get('patterns', []))
            self.notes.update(r.get('notes', []))
        self.inconclusive += [dict(i, group=group) for i in inc]
        if bounds:
            self.bounds[group] = bounds
        g = {'group': group, 'jobs': len(jobs), 'counts': counts, 'wall_s': round(time.time() - t, 2)}
        self.groups.append(g)
        # a sample obligation for the evidence file
        for r in rs:
            if r['status'] == 'ok' and r['obligations'] and len(self.samples) < 12:
                o = r['obligations'][min(len(r['obligations']) - 1, 1)]
                self.samples.append({'group': group, 'harness': r['harness'].rsplit('.', 1)[-1], 'params': r.get('params'), 'fixlen': r.get('fixlen'),
                                     'obligation': o['name'], 'kind': o['kind'], 'result': o['result'], 'solver_s': o['solver_s']})
                break
        return rs, viol

    # ------------------------------------------------------------ native replay
    def testbin(self, pkg):
        """compile the package's test binary with the harness overlay (once)"""
        if pkg in self.testbins:
            return self.testbins[pkg]
        out = os.path.join(self.scratch, 'replay-%s.test' % pkg.replace('/', '_'))
        r = subprocess.run(['go', 'test', '-tags', 'verif', '-vet=off', '-c', '-o', out, '-overlay', self.ovjson, './' + pkg],
                           cwd=REPO, env=GOENV, capture_output=True, text=True)
        if r.returncode != 0:
            self.testbins[pkg] = None
            self.inconclusive.append({'why': 'replay build failed for %s: %s' % (pkg, r.stderr[-1500:])})
            return None
        self.testbins[pkg] = out
        return out

    def replay(self, harness_full, model, params=None, save=True, timeout=60, repeat=None):
        """repeat: schedule-dependent properties (map iteration order) are replayed up to `repeat` times in fresh
        processes until the violation shows (the Go runtime draws a new order every time)"""
        repeat = repeat or self.replay_repeat
        outcome, path = self._replay_once(harness_full, model, params, timeout)
        n = 1
        while repeat and n < repeat and outcome == 'ok':
            outcome, _ = self._replay_once(harness_full, model, params, timeout, path)
            n += 1
        self.replays.append({'file': path, 'outcome': outcome[:300], 'runs': n})
        return outcome, path

    def _replay_once(self, harness_full, model, params=None, timeout=60, path=None):
        """run the harness natively on the model's values. returns (outcome string, replay file path)"""
        pkgpath, short = harness_full.rsplit('.', 1)
        pkg = pkgpath[len(MOD) + 1:] if pkgpath.startswith(MOD) else pkgpath
        vals = {}
        for tag, v in (model or {}).items():
            if v['kind'] == 'str':
                vals[tag] = {'Kind': 'str', 'Hex': v['hex']}
            elif v['kind'] == 'bool':
                vals[tag] = {'Kind': 'bool', 'B': v['v']}
            else:
                vals[tag] = {'Kind': v['kind'], 'V': v['v']}
        if path is None:
            self.nreplay += 1
            path = os.path.join(self.replay_dir, '%s-%d.json' % (short, self.nreplay))
            json.dump({'Harness': short, 'Package': pkg, 'Values': vals, 'Params': params or {}}, open(path, 'w'), indent=1)
        tb = self.testbin(pkg)
        if tb is None:
            return 'replay-build-failed', path
        try:
            r = subprocess.run([tb, '-test.run', '^TestVerifReplay$', '-test.count=1'], cwd=os.path.join(REPO, pkg),
                               env=dict(GOENV, VERIF_REPLAY=path, TMPDIR=self.rtmp), capture_output=True, text=True, timeout=timeout)
            out = r.stdout + r.stderr
        except subprocess.TimeoutExpired:
            return 'timeout', path
        m = re.search(r'REPLAY-RESULT: (.*)', out)
        if m:
            outcome = m.group(1).strip()
        elif r.returncode != 0:
            # process died (os.Exit from logger.Fatal, or an unrecovered panic)
            tail = out.strip().splitlines()[-8:]
            outcome = 'died: rc=%d %s' % (r.returncode, ' | '.join(tail)[-600:])
        else:
            outcome = 'no-result'
        return outcome, path

    def triage(self, viol, is_known=None, describe=None):
        """replay solver models; confirmed ones become violations unless matched by a known finding.
        is_known(v) -> finding id or None (concrete signature check on the model values)"""
        seen_keys = {}
        for v in viol:
            key = (v.get('known_id'), v['name'])
            seen_keys[key] = seen_keys.get(key, 0) + 1
            if seen_keys[key] > (1 if v.get('known_id') else self.max_replays_per_obligation):
                if not v.get('known_id'):
                    self.extra['further_violation_models_not_replayed'] = self.extra.get('further_violation_models_not_replayed', 0) + 1
                continue
            outcome, path = self.replay(v['harness'], v['model'], v.get('params'))
            v['replay'] = path
            v['replay_outcome'] = outcome
            confirmed = outcome.startswith('violated') or ((outcome.startswith('died') or outcome == 'timeout') and self.died_confirms)
            if not confirmed:
                self.unconfirmed.append(v)
                self.inconclusive.append({'why': 'solver model did not reproduce natively (%s): %s %s' % (outcome, v['name'], path), 'harness': v['harness'], '_key': key})
                continue
            kid = v.get('known_id') or (is_known(v) if is_known else None)
            if kid:
                if kid not in [k['id'] for k in self.known_seen]:
                    self.known_seen.append({'id': kid, 'replay': path, 'outcome': outcome[:200]})
                continue
            self.violations.append(v)
            # a reproduced counterexample settles the obligation: earlier models of the same obligation that did not
            # reproduce (summarised callees over-approximate) are no longer open questions
            self.inconclusive = [i for i in self.inconclusive if i.get('_key') != key]

    # ------------------------------------------------------------ known-finding witnesses
    def check_known_witness(self, finding, reproduced, detail=''):
        if reproduced:
            if finding['id'] not in [k['id'] for k in self.known_seen]:
                self.known_seen.append({'id': finding['id'], 'detail': detail[:300]})
        else:
            self.stale.append({'id': finding['id'], 'detail': detail[:300]})

    # ------------------------------------------------------------ finish
    def finish(self, coverage_extra=None, rule=None):
        wall = time.time() - self.t0
        ev = {
            'property_id': self.pid, 'tier': self.tier, 'seed': self.seed, 'level': self.level,
            'coverage': {
                'evaluations': max(1, self.queries),
                'distinct_nontrivial': max(0, self.counts['unsat'] + self.counts['sat'] + self.counts['reach_sat']),
                'rule': rule or 'one evaluation = one solver query (proof obligation or reachability witness) generated by symbolic execution of the harness over the SSA of the current /repo tree; non-trivial = the obligation is a non-constant formula that reached the solver (constant-folded ones are not counted); distinct = distinct (harness, parameters, source position, obligation)',
                'samples': self.samples[:12] or [{'note': 'no obligation sample'}],
                'obligations_unsat': self.counts['unsat'], 'obligations_sat': self.counts['sat'], 'solver_unknown': self.counts['unknown'],
                'reachability_witnesses_sat': self.counts['reach_sat'], 'reachability_witnesses_unsat': self.counts['reach_unsat'],
                'queries': self.queries, 'solver_wall_s': round(self.solver_s, 2),
                'functions_encoded': sorted(self.functions), 'patterns_extracted': sorted(self.patterns),
                'bounds': self.bounds, 'groups': self.groups,
                'inconclusive': self.inconclusive[:40], 'inconclusive_count': len(self.inconclusive),
                'replays': self.replays[:40],
                'known_findings_seen': self.known_seen, 'stale_known_findings': self.stale,
                'ssa_build_s': round(self.ssa_s, 2),
            },
            'assumptions': sorted(set(self.assumptions) | self.notes),
            'wall_s': round(wall, 2),
            'violations': len(self.violations),
        }
        if coverage_extra:
            ev['coverage'].update(coverage_extra)
        ev['coverage'].update(self.extra)
        evdir = os.environ.get('VERIF_EVIDENCE_DIR') or os.path.join(ROOT, 'evidence')
        os.makedirs(evdir, exist_ok=True)
        json.dump(ev, open(os.path.join(evdir, '%s.json' % self.pid), 'w'), indent=1, default=str)
        for k in self.known:
            if k['id'] in [s['id'] for s in self.known_seen]:
                print('KNOWN-FINDING: property=%s %s [%s]' % (self.pid, k['what'], k['id']))
        for s in self.stale:
            print('STALE-KNOWN-FINDING: property=%s %s no longer reproduces (%s)' % (self.pid, s['id'], s['detail']), file=sys.stderr)
        for i in self.inconclusive[:10]:
            print('INCONCLUSIVE: %s' % json.dumps(i, default=str)[:400], file=sys.stderr)
        print('%s %s: %d queries (%d unsat, %d sat, %d unknown), %d reach witnesses, %d inconclusive, %d known findings, %d violations, %.1fs'
              % (self.pid, self.tier, self.queries, self.counts['unsat'], self.counts['sat'], self.counts['unknown'], self.counts['reach_sat'],
                 len(self.inconclusive), len(self.known_seen), len(self.violations), wall))
        for v in self.violations:
            print('VIOLATION property=%s replay=%s' % (self.pid, v.get('replay')))
            print('  %s: %s at %s ; model %s ; outcome %s' % (v['harness'].rsplit('.', 1)[-1], v['name'], v.get('pos'),
                                                            json.dumps({k: x.get('text', x.get('v')) for k, x in (v.get('model') or {}).items()})[:600], v.get('replay_outcome', '')[:200]))
        self.cleanup()
        return 1 if self.violations else 0

    def cleanup(self):
        shutil.rmtree(self.scratch, ignore_errors=True)
        shutil.rmtree(self.ovdir, ignore_errors=True)
        try:
            os.remove(self.ssa)
        except OSError:
            pass
