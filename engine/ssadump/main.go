// ssadump: E0 of the verification framework.
// Loads /repo (current working tree) with harness files injected through a go/packages overlay,
// builds go/ssa and dumps, as JSON, every function of the module's packages (and the functions they
// reference inside the module), the types they use, method tables, globals and named constants of
// selected dependencies.  The Python engine (gobmc.py) executes this JSON symbolically.
//
// usage: ssadump -repo /repo -overlay dir -out file.json [-extra pkgpath,...]
//   -overlay dir : every file dir/<relpath>/zz_*.go is injected as <repo>/<relpath>/zz_*.go
package main

import (
	"encoding/hex"
	"encoding/json"
	"flag"
	"fmt"
	"go/constant"
	"go/token"
	"go/types"
	"os"
	"path/filepath"
	"sort"
	"strings"

	"golang.org/x/tools/go/packages"
	"golang.org/x/tools/go/ssa"
	"golang.org/x/tools/go/ssa/ssautil"
)

type J = map[string]any

var (
	typesOut = map[string]J{}
	fset     *token.FileSet
	modPath  string
	extra    = map[string]bool{}
	funcsOut = map[string]J{}
	queue    []*ssa.Function
	seen     = map[*ssa.Function]bool{}
	globals  = map[string]J{}
	methods  = map[string]map[string]string{}
	prog     *ssa.Program
)

func inScope(p *types.Package) bool {
	if p == nil {
		return false
	}
	return p.Path() == modPath || strings.HasPrefix(p.Path(), modPath+"/") || extra[p.Path()]
}

func fnPkg(f *ssa.Function) *types.Package {
	if f.Pkg != nil {
		return f.Pkg.Pkg
	}
	if f.Signature != nil && f.Signature.Recv() != nil {
		t := f.Signature.Recv().Type()
		if p, ok := t.(*types.Pointer); ok {
			t = p.Elem()
		}
		if n, ok := t.(*types.Named); ok && n.Obj() != nil {
			return n.Obj().Pkg()
		}
	}
	if f.Parent() != nil {
		return fnPkg(f.Parent())
	}
	if o := f.Origin(); o != nil && o != f {
		return fnPkg(o)
	}
	return nil
}

func tkey(t types.Type) string {
	if t == nil {
		return ""
	}
	t = types.Unalias(t)
	k := types.TypeString(t, nil)
	if _, ok := typesOut[k]; ok {
		return k
	}
	d := J{}
	typesOut[k] = d
	switch tt := t.(type) {
	case *types.Basic:
		info := tt.Info()
		switch {
		case info&types.IsBoolean != 0:
			d["k"] = "bool"
		case info&types.IsString != 0:
			d["k"] = "string"
		case info&types.IsInteger != 0:
			d["k"] = "int"
			bits := 64
			switch tt.Kind() {
			case types.Int8, types.Uint8:
				bits = 8
			case types.Int16, types.Uint16:
				bits = 16
			case types.Int32, types.Uint32:
				bits = 32
			}
			d["bits"] = bits
			d["signed"] = info&types.IsUnsigned == 0
		case info&types.IsFloat != 0:
			d["k"] = "float"
		case tt.Kind() == types.UnsafePointer:
			d["k"] = "unsafeptr"
		case tt.Kind() == types.UntypedNil:
			d["k"] = "nil"
		default:
			d["k"] = "other"
		}
	case *types.Named:
		d["k"] = "named"
		d["name"] = tt.Obj().Name()
		if tt.Obj().Pkg() != nil {
			d["pkg"] = tt.Obj().Pkg().Path()
		}
		d["under"] = tkey(tt.Underlying())
	case *types.Alias:
		d["k"] = "named"
		d["name"] = tt.Obj().Name()
		d["under"] = tkey(types.Unalias(tt))
	case *types.Pointer:
		d["k"] = "ptr"
		d["elem"] = tkey(tt.Elem())
	case *types.Slice:
		d["k"] = "slice"
		d["elem"] = tkey(tt.Elem())
	case *types.Array:
		d["k"] = "array"
		d["elem"] = tkey(tt.Elem())
		d["len"] = tt.Len()
	case *types.Map:
		d["k"] = "map"
		d["key"] = tkey(tt.Key())
		d["elem"] = tkey(tt.Elem())
	case *types.Struct:
		d["k"] = "struct"
		fs := []J{}
		for i := 0; i < tt.NumFields(); i++ {
			f := tt.Field(i)
			fs = append(fs, J{"n": f.Name(), "t": tkey(f.Type()), "emb": f.Embedded()})
		}
		d["fields"] = fs
	case *types.Interface:
		d["k"] = "iface"
		ms := []string{}
		for i := 0; i < tt.NumMethods(); i++ {
			ms = append(ms, tt.Method(i).Name())
		}
		d["methods"] = ms
	case *types.Signature:
		d["k"] = "func"
		ps := []string{}
		for i := 0; i < tt.Params().Len(); i++ {
			ps = append(ps, tkey(tt.Params().At(i).Type()))
		}
		rs := []string{}
		for i := 0; i < tt.Results().Len(); i++ {
			rs = append(rs, tkey(tt.Results().At(i).Type()))
		}
		d["params"] = ps
		d["results"] = rs
		d["variadic"] = tt.Variadic()
	case *types.Tuple:
		d["k"] = "tuple"
		es := []string{}
		for i := 0; i < tt.Len(); i++ {
			es = append(es, tkey(tt.At(i).Type()))
		}
		d["elems"] = es
	case *types.Chan:
		d["k"] = "chan"
	case *types.TypeParam:
		d["k"] = "typeparam"
	default:
		d["k"] = "other"
	}
	// method table for named types / pointers to named types in scope
	recordMethods(t, k)
	return k
}

func recordMethods(t types.Type, k string) {
	var named *types.Named
	switch tt := t.(type) {
	case *types.Named:
		named = tt
	case *types.Pointer:
		if n, ok := tt.Elem().(*types.Named); ok {
			named = n
		}
	}
	if named == nil || named.Obj().Pkg() == nil || !inScope(named.Obj().Pkg()) {
		return
	}
	if _, isIface := named.Underlying().(*types.Interface); isIface {
		return
	}
	ms := prog.MethodSets.MethodSet(t)
	tbl := map[string]string{}
	for i := 0; i < ms.Len(); i++ {
		sel := ms.At(i)
		fn := prog.MethodValue(sel)
		if fn != nil {
			tbl[sel.Obj().Name()] = fn.String()
			enqueue(fn)
		}
	}
	methods[k] = tbl
}

func enqueue(f *ssa.Function) {
	if f == nil || seen[f] {
		return
	}
	seen[f] = true
	queue = append(queue, f)
}

func constJSON(c *ssa.Const) J {
	o := J{"k": "const", "t": tkey(c.Type())}
	if c.Value == nil {
		o["zero"] = true
		return o
	}
	switch c.Value.Kind() {
	case constant.Bool:
		o["v"] = constant.BoolVal(c.Value)
	case constant.String:
		o["hex"] = hex.EncodeToString([]byte(constant.StringVal(c.Value)))
	case constant.Int:
		o["v"] = c.Value.ExactString()
	case constant.Float:
		f, _ := constant.Float64Val(c.Value)
		o["f"] = f
	default:
		o["v"] = c.Value.ExactString()
	}
	return o
}

func val(v ssa.Value) J {
	switch x := v.(type) {
	case nil:
		return nil
	case *ssa.Const:
		return constJSON(x)
	case *ssa.Function:
		enqueue(x)
		return J{"k": "func", "n": x.String(), "t": tkey(x.Type())}
	case *ssa.Global:
		name := x.String()
		if _, ok := globals[name]; !ok {
			globals[name] = J{"t": tkey(x.Type().(*types.Pointer).Elem()), "pkg": x.Pkg.Pkg.Path()}
		}
		return J{"k": "global", "n": name, "t": tkey(x.Type())}
	case *ssa.Builtin:
		return J{"k": "builtin", "n": x.Name()}
	case *ssa.Parameter:
		return J{"k": "reg", "n": "p:" + x.Name(), "t": tkey(x.Type())}
	case *ssa.FreeVar:
		return J{"k": "reg", "n": "fv:" + x.Name(), "t": tkey(x.Type())}
	default:
		return J{"k": "reg", "n": v.Name(), "t": tkey(v.Type())}
	}
}

func vals(vs []ssa.Value) []J {
	out := []J{}
	for _, v := range vs {
		out = append(out, val(v))
	}
	return out
}

func callJSON(c *ssa.CallCommon, o J) {
	o["args"] = vals(c.Args)
	if c.IsInvoke() {
		o["invoke"] = c.Method.Name()
		o["recv"] = val(c.Value)
		o["recvt"] = tkey(c.Value.Type())
	} else {
		o["fn"] = val(c.Value)
		if sc := c.StaticCallee(); sc != nil {
			o["static"] = sc.String()
			if sc.Signature.Recv() != nil {
				o["recvt"] = tkey(sc.Signature.Recv().Type())
			}
		}
	}
	o["sig"] = tkey(c.Signature())
}

func instrJSON(in ssa.Instruction) J {
	o := J{}
	if v, ok := in.(ssa.Value); ok {
		o["r"] = v.Name()
		o["t"] = tkey(v.Type())
	}
	if p := in.Pos(); p.IsValid() {
		pp := fset.Position(p)
		o["pos"] = fmt.Sprintf("%s:%d", filepath.Base(pp.Filename), pp.Line)
	}
	switch x := in.(type) {
	case *ssa.Alloc:
		o["op"] = "Alloc"
		o["heap"] = x.Heap
		o["elem"] = tkey(x.Type().(*types.Pointer).Elem())
		o["comment"] = x.Comment
	case *ssa.BinOp:
		o["op"] = "BinOp"
		o["bop"] = x.Op.String()
		o["x"] = val(x.X)
		o["y"] = val(x.Y)
	case *ssa.UnOp:
		o["op"] = "UnOp"
		o["uop"] = x.Op.String()
		o["x"] = val(x.X)
		o["commaok"] = x.CommaOk
	case *ssa.Call:
		o["op"] = "Call"
		callJSON(&x.Call, o)
	case *ssa.ChangeInterface:
		o["op"] = "ChangeInterface"
		o["x"] = val(x.X)
	case *ssa.ChangeType:
		o["op"] = "ChangeType"
		o["x"] = val(x.X)
	case *ssa.Convert:
		o["op"] = "Convert"
		o["x"] = val(x.X)
	case *ssa.MultiConvert:
		o["op"] = "Convert"
		o["x"] = val(x.X)
	case *ssa.DebugRef:
		return nil
	case *ssa.Defer:
		o["op"] = "Defer"
		callJSON(&x.Call, o)
	case *ssa.Extract:
		o["op"] = "Extract"
		o["x"] = val(x.Tuple)
		o["i"] = x.Index
	case *ssa.Field:
		o["op"] = "Field"
		o["x"] = val(x.X)
		o["i"] = x.Field
	case *ssa.FieldAddr:
		o["op"] = "FieldAddr"
		o["x"] = val(x.X)
		o["i"] = x.Field
	case *ssa.Go:
		o["op"] = "Go"
	case *ssa.If:
		o["op"] = "If"
		o["x"] = val(x.Cond)
	case *ssa.Index:
		o["op"] = "Index"
		o["x"] = val(x.X)
		o["y"] = val(x.Index)
	case *ssa.IndexAddr:
		o["op"] = "IndexAddr"
		o["x"] = val(x.X)
		o["y"] = val(x.Index)
	case *ssa.Jump:
		o["op"] = "Jump"
	case *ssa.Lookup:
		o["op"] = "Lookup"
		o["x"] = val(x.X)
		o["y"] = val(x.Index)
		o["commaok"] = x.CommaOk
	case *ssa.MakeChan:
		o["op"] = "MakeChan"
	case *ssa.MakeClosure:
		o["op"] = "MakeClosure"
		o["fn"] = val(x.Fn)
		o["bindings"] = vals(x.Bindings)
	case *ssa.MakeInterface:
		o["op"] = "MakeInterface"
		o["x"] = val(x.X)
		o["xt"] = tkey(x.X.Type())
	case *ssa.MakeMap:
		o["op"] = "MakeMap"
	case *ssa.MakeSlice:
		o["op"] = "MakeSlice"
		o["len"] = val(x.Len)
		o["cap"] = val(x.Cap)
	case *ssa.MapUpdate:
		o["op"] = "MapUpdate"
		o["m"] = val(x.Map)
		o["key"] = val(x.Key)
		o["x"] = val(x.Value)
	case *ssa.Next:
		o["op"] = "Next"
		o["x"] = val(x.Iter)
		o["isstring"] = x.IsString
	case *ssa.Panic:
		o["op"] = "Panic"
		o["x"] = val(x.X)
	case *ssa.Phi:
		o["op"] = "Phi"
		o["edges"] = vals(x.Edges)
		o["comment"] = x.Comment
	case *ssa.Range:
		o["op"] = "Range"
		o["x"] = val(x.X)
		o["xt"] = tkey(x.X.Type())
	case *ssa.Return:
		o["op"] = "Return"
		o["results"] = vals(x.Results)
	case *ssa.RunDefers:
		o["op"] = "RunDefers"
	case *ssa.Select:
		o["op"] = "Select"
	case *ssa.Send:
		o["op"] = "Send"
	case *ssa.Slice:
		o["op"] = "Slice"
		o["x"] = val(x.X)
		o["xt"] = tkey(x.X.Type())
		o["low"] = val(x.Low)
		o["high"] = val(x.High)
		o["max"] = val(x.Max)
	case *ssa.SliceToArrayPointer:
		o["op"] = "SliceToArrayPointer"
		o["x"] = val(x.X)
	case *ssa.Store:
		o["op"] = "Store"
		o["addr"] = val(x.Addr)
		o["x"] = val(x.Val)
	case *ssa.TypeAssert:
		o["op"] = "TypeAssert"
		o["x"] = val(x.X)
		o["asserted"] = tkey(x.AssertedType)
		o["commaok"] = x.CommaOk
	default:
		o["op"] = fmt.Sprintf("?%T", in)
	}
	return o
}

func dumpFunc(f *ssa.Function) {
	name := f.String()
	o := J{"name": name, "short": f.Name(), "sig": tkey(f.Signature)}
	if p := fnPkg(f); p != nil {
		o["pkg"] = p.Path()
	}
	if f.Synthetic != "" {
		o["synthetic"] = f.Synthetic
	}
	ps := []J{}
	for _, p := range f.Params {
		ps = append(ps, J{"n": "p:" + p.Name(), "t": tkey(p.Type())})
	}
	o["params"] = ps
	fvs := []J{}
	for _, p := range f.FreeVars {
		fvs = append(fvs, J{"n": "fv:" + p.Name(), "t": tkey(p.Type())})
	}
	o["freevars"] = fvs
	for _, a := range f.AnonFuncs {
		enqueue(a)
	}
	if f.Blocks == nil || !inScope(fnPkg(f)) {
		o["external"] = true
		funcsOut[name] = o
		return
	}
	if f.Recover != nil {
		o["recover"] = f.Recover.Index
	}
	blocks := []J{}
	for _, b := range f.Blocks {
		bo := J{"i": b.Index, "comment": b.Comment}
		ss := []int{}
		for _, s := range b.Succs {
			ss = append(ss, s.Index)
		}
		pr := []int{}
		for _, s := range b.Preds {
			pr = append(pr, s.Index)
		}
		bo["succs"] = ss
		bo["preds"] = pr
		if d := b.Idom(); d != nil {
			bo["idom"] = d.Index
		} else {
			bo["idom"] = -1
		}
		ins := []J{}
		for _, in := range b.Instrs {
			if j := instrJSON(in); j != nil {
				ins = append(ins, j)
			}
		}
		bo["instrs"] = ins
		blocks = append(blocks, bo)
	}
	o["blocks"] = blocks
	funcsOut[name] = o
}

func main() {
	repo := flag.String("repo", "/repo", "repository root")
	overlayDir := flag.String("overlay", "", "directory with harness files to inject")
	out := flag.String("out", "-", "output file")
	extraS := flag.String("extra", "", "comma separated extra package paths whose function bodies are dumped")
	tags := flag.String("tags", "verif", "build tags")
	flag.Parse()
	for _, e := range strings.Split(*extraS, ",") {
		if e != "" {
			extra[e] = true
		}
	}
	overlay := map[string][]byte{}
	if *overlayDir != "" {
		filepath.Walk(*overlayDir, func(p string, info os.FileInfo, err error) error {
			if err != nil || info.IsDir() || !strings.HasSuffix(p, ".go") {
				return nil
			}
			rel, _ := filepath.Rel(*overlayDir, p)
			b, _ := os.ReadFile(p)
			overlay[filepath.Join(*repo, rel)] = b
			return nil
		})
	}
	cfg := &packages.Config{
		Mode:       packages.LoadAllSyntax | packages.NeedModule,
		Dir:        *repo,
		BuildFlags: []string{"-tags=" + *tags, "-mod=mod"},
		Overlay:    overlay,
		Env:        append(os.Environ(), "GOFLAGS=-mod=mod", "GOPROXY=off", "GOSUMDB=off", "GOTOOLCHAIN=local"),
	}
	pkgs, err := packages.Load(cfg, "./...")
	if err != nil {
		fmt.Fprintln(os.Stderr, "load:", err)
		os.Exit(2)
	}
	if packages.PrintErrors(pkgs) > 0 {
		os.Exit(2)
	}
	fset = pkgs[0].Fset
	if pkgs[0].Module != nil {
		modPath = pkgs[0].Module.Path
	}
	var spkgs []*ssa.Package
	prog, spkgs = ssautil.AllPackages(pkgs, ssa.InstantiateGenerics)
	prog.Build()
	pkgList := []string{}
	for _, p := range spkgs {
		if p == nil || !inScope(p.Pkg) {
			continue
		}
		pkgList = append(pkgList, p.Pkg.Path())
		names := []string{}
		for n := range p.Members {
			names = append(names, n)
		}
		sort.Strings(names)
		for _, n := range names {
			switch m := p.Members[n].(type) {
			case *ssa.Function:
				enqueue(m)
			case *ssa.Global:
				val(m)
			case *ssa.Type:
				tkey(m.Type())
				tkey(types.NewPointer(m.Type()))
			}
		}
	}
	// also process extra packages (dependencies requested explicitly)
	for _, p := range prog.AllPackages() {
		if extra[p.Pkg.Path()] {
			for _, m := range p.Members {
				if f, ok := m.(*ssa.Function); ok {
					enqueue(f)
				}
			}
		}
	}
	for len(queue) > 0 {
		f := queue[0]
		queue = queue[1:]
		dumpFunc(f)
	}
	// named string constants of all loaded packages that look like regex sources we need
	consts := J{}
	for _, p := range prog.AllPackages() {
		pp := p.Pkg.Path()
		if !(inScope(p.Pkg) || pp == "github.com/Masterminds/semver/v3") {
			continue
		}
		for n, m := range p.Members {
			if c, ok := m.(*ssa.NamedConst); ok && c.Value.Value != nil && c.Value.Value.Kind() == constant.String {
				consts[pp+"."+n] = hex.EncodeToString([]byte(constant.StringVal(c.Value.Value)))
			}
		}
	}
	res := J{"module": modPath, "packages": pkgList, "types": typesOut, "funcs": funcsOut, "globals": globals, "methods": methods, "consts": consts}
	var w *os.File = os.Stdout
	if *out != "-" {
		w, err = os.Create(*out)
		if err != nil {
			panic(err)
		}
		defer w.Close()
	}
	enc := json.NewEncoder(w)
	if err := enc.Encode(res); err != nil {
		panic(err)
	}
}
