// rxtool: E0' helper. Gives the Python side access to Go's own regexp machinery:
//   prog  : stdin JSON [pattern...]            -> compiled syntax.Prog per pattern (what regexp executes)
//   match : stdin JSON {pattern, inputs:[hex]} -> FindSubmatchIndex per input (differential oracle tests)
//   ast   : stdin JSON [{pattern, flags}]      -> simplified-free syntax tree per pattern (for E3)
//   funcs : stdin JSON {fn, args...}           -> results of real library functions (intrinsic self-tests)
package main

import (
	"encoding/hex"
	"encoding/json"
	"fmt"
	"os"
	"path"
	"regexp"
	"regexp/syntax"
	"strconv"
	"strings"
)

type Inst struct {
	Op   string `json:"op"`
	Out  uint32 `json:"out"`
	Arg  uint32 `json:"arg"`
	Rune []rune `json:"rune,omitempty"`
	Fold bool   `json:"fold,omitempty"`
}
type Prog struct {
	Pattern string `json:"pattern"`
	Error   string `json:"error,omitempty"`
	Start   int    `json:"start"`
	NumCap  int    `json:"numcap"`
	Inst    []Inst `json:"inst"`
}

type Node struct {
	Op    string  `json:"op"`
	Flags uint16  `json:"flags"`
	Min   int     `json:"min,omitempty"`
	Max   int     `json:"max,omitempty"`
	Cap   int     `json:"cap,omitempty"`
	Rune  []rune  `json:"rune,omitempty"`
	Sub   []*Node `json:"sub,omitempty"`
}

func toNode(re *syntax.Regexp) *Node {
	n := &Node{Op: re.Op.String(), Flags: uint16(re.Flags), Min: re.Min, Max: re.Max, Cap: re.Cap, Rune: re.Rune}
	for _, s := range re.Sub {
		n.Sub = append(n.Sub, toNode(s))
	}
	return n
}

func main() {
	dec := json.NewDecoder(os.Stdin)
	enc := json.NewEncoder(os.Stdout)
	switch os.Args[1] {
	case "prog":
		var pats []string
		dec.Decode(&pats)
		out := []Prog{}
		for _, p := range pats {
			re, err := syntax.Parse(p, syntax.Perl)
			if err != nil {
				out = append(out, Prog{Pattern: p, Error: err.Error()})
				continue
			}
			nc := re.MaxCap()
			prog, err := syntax.Compile(re.Simplify())
			if err != nil {
				out = append(out, Prog{Pattern: p, Error: err.Error()})
				continue
			}
			pr := Prog{Pattern: p, Start: prog.Start, NumCap: 2 * (nc + 1)}
			for _, i := range prog.Inst {
				pr.Inst = append(pr.Inst, Inst{Op: i.Op.String(), Out: i.Out, Arg: i.Arg, Rune: i.Rune,
					Fold: (i.Op == syntax.InstRune || i.Op == syntax.InstRune1) && syntax.Flags(i.Arg)&syntax.FoldCase != 0})
			}
			out = append(out, pr)
		}
		enc.Encode(out)
	case "match":
		var in struct {
			Pattern string
			Inputs  []string
		}
		dec.Decode(&in)
		re := regexp.MustCompile(in.Pattern)
		res := [][]int{}
		for _, h := range in.Inputs {
			b, _ := hex.DecodeString(h)
			res = append(res, re.FindSubmatchIndex(b))
		}
		enc.Encode(res)
	case "ast":
		var in []struct {
			Pattern string
			Flags   uint16
		}
		dec.Decode(&in)
		out := []any{}
		for _, q := range in {
			re, err := syntax.Parse(q.Pattern, syntax.Flags(q.Flags))
			if err != nil {
				out = append(out, map[string]string{"error": err.Error()})
				continue
			}
			out = append(out, toNode(re))
		}
		enc.Encode(out)
	case "funcs":
		// differential test vectors for the engine's intrinsic models
		var in []struct {
			Fn   string
			Args []string // hex
		}
		dec.Decode(&in)
		out := []any{}
		for _, q := range in {
			a := make([]string, len(q.Args))
			for i, h := range q.Args {
				b, _ := hex.DecodeString(h)
				a[i] = string(b)
			}
			hx := func(s string) string { return hex.EncodeToString([]byte(s)) }
			switch q.Fn {
			case "strings.TrimSpace":
				out = append(out, hx(strings.TrimSpace(a[0])))
			case "strings.TrimLeft":
				out = append(out, hx(strings.TrimLeft(a[0], a[1])))
			case "strings.ReplaceAll":
				out = append(out, hx(strings.ReplaceAll(a[0], a[1], a[2])))
			case "strings.Index":
				out = append(out, strings.Index(a[0], a[1]))
			case "strings.HasSuffix":
				out = append(out, strings.HasSuffix(a[0], a[1]))
			case "strings.Split":
				r := []string{}
				for _, x := range strings.Split(a[0], a[1]) {
					r = append(r, hx(x))
				}
				out = append(out, r)
			case "path.Ext":
				out = append(out, hx(path.Ext(a[0])))
			case "path.Base":
				out = append(out, hx(path.Base(a[0])))
			case "path.Dir":
				out = append(out, hx(path.Dir(a[0])))
			case "path.Join":
				out = append(out, hx(path.Join(a...)))
			case "strconv.ParseUint8":
				v, err := strconv.ParseUint(a[0], 10, 8)
				out = append(out, []any{v, err != nil})
			case "regexp.ReplaceAllString":
				out = append(out, hx(regexp.MustCompile(a[0]).ReplaceAllString(a[1], a[2])))
			case "regexp.ReplaceAllLiteralString":
				out = append(out, hx(regexp.MustCompile(a[0]).ReplaceAllLiteralString(a[1], a[2])))
			case "regexp.FindAllString":
				r := []string{}
				for _, x := range regexp.MustCompile(a[0]).FindAllString(a[1], -1) {
					r = append(r, hx(x))
				}
				out = append(out, r)
			default:
				out = append(out, fmt.Sprintf("unknown %s", q.Fn))
			}
		}
		enc.Encode(out)
	}
}
