module verif/rxtool

go 1.23
