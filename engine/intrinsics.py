"""Intrinsic models: harness API (nondet/assume/assert), library functions (strings, bytes, regexp,
fmt, strconv, path, bufio, os stubs, zerolog).  Every model is listed in evidence as part of the
trusted base; string models are differentially tested against the real Go functions (selftest.py)."""
import zz as z3
from sym import *
from gobmc import *
import pike

INTR = {}


def intr(*names):
    def deco(f):
        for n in names:
            INTR[n] = f
        return f
    return deco


def lift_str(ex, st, vals, f):
    """apply f to all combinations of alternatives of vals (ChoiceV aware)"""
    def len_alts(v):
        """case-split a string over the (small) value set of its length"""
        if isinstance(v, Str) and not is_c(v.ln):
            vs = vals_of(v.ln, 6)
            if vs is not None:
                vs = [x for x in vs if 0 <= x <= v.cap]
                if vs:
                    return [(v.ln == x, Str(v.b[:x], x)) for x in vs]
        return [(True, v)]

    def rec(i, acc, g):
        if i == len(vals):
            return [(g, f(*acc))]
        out = []
        for ga, va in alts_of(vals[i]):
            for gl, vl in len_alts(va):
                gg = b_and(g, ga, gl)
                if gg is False:
                    continue
                out += rec(i + 1, acc + [vl], gg)
        return out
    r = rec(0, [], True)
    return merge_vals(ex.ctx, st.heap, r)


# ------------------------------------------------------------------ harness API
def register_harness_api(ctx, pkgpaths):
    for p in pkgpaths:
        for short, f in HARNESS.items():
            ctx.intrinsics['%s.%s' % (p, short)] = f


HARNESS = {}


def harness(name):
    def deco(f):
        HARNESS[name] = f
        return f
    return deco


def cstr(v):
    if not (isinstance(v, Str) and v.is_conc()):
        raise Unsupported('harness tag must be a constant string')
    return v.conc().decode()


@harness('vNondetStr')
def h_nondet_str(ex, st, g, args, pos):
    tag = cstr(args[0])
    mx = args[1]
    if not is_c(mx):
        raise Unsupported('vNondetStr max must be concrete')
    ctx = ex.ctx
    fixed = ctx.hooks.get('fixlen', {}).get(tag)
    if fixed is not None:
        s = s_fresh('s_' + tag, fixed, fixed)
    else:
        s = s_fresh('s_' + tag, mx)
        ctx.assumptions.append(z3.And(s.ln >= 0, s.ln <= mx))
    ctx.nondets.append((tag, 'str', s))
    return s


@harness('vNondetStrP')
def h_nondet_strp(ex, st, g, args, pos):
    """printable ASCII (0x20..0x7e) string; byte ranges are known to the term layer"""
    s = h_nondet_str(ex, st, g, args, pos)
    for b in s.b:
        ex.ctx.assumptions.append(z3.And(z3.UGE(b, 0x20), z3.ULE(b, 0x7e)))
        set_ub(b, 0x7e, 0x20)
    return s


@harness('vNondetStrA')
def h_nondet_stra(ex, st, g, args, pos):
    """ASCII (< 0x80) string without NUL"""
    s = h_nondet_str(ex, st, g, args, pos)
    for b in s.b:
        ex.ctx.assumptions.append(z3.And(z3.UGE(b, 1), z3.ULE(b, 0x7f)))
        set_ub(b, 0x7f, 1)
    return s


@harness('vNondetStrOf')
def h_nondet_strof(ex, st, g, args, pos):
    """string over a small constant alphabet: every byte is an ite-tree over the alphabet's constants,
    so comparisons with bytes outside the alphabet fold away"""
    tag = cstr(args[0])
    mx = args[1]
    alpha = args[2].conc()
    ctx = ex.ctx
    fixed = ctx.hooks.get('fixlen', {}).get(tag)
    cap = fixed if fixed is not None else mx
    nb = max(1, (len(alpha) - 1).bit_length())
    bs = []
    for i in range(cap):
        sel = z3.BitVec('s_%s_%d' % (tag, i), 8)
        ctx.assumptions.append(z3.ULT(sel, len(alpha)))
        v = alpha[-1]
        for j in range(len(alpha) - 2, -1, -1):
            v = z3.If(sel == j, z3.BitVecVal(alpha[j], 8), v if isinstance(v, z3.ExprRef) else z3.BitVecVal(v, 8))
        if not isinstance(v, z3.ExprRef):
            v = int(v)
        else:
            set_ub(v, max(alpha), min(alpha))
        bs.append(v)
    if fixed is not None:
        s = Str(bs, fixed)
    else:
        ln = z3.BitVec('s_%s_len' % tag, W)
        ctx.assumptions.append(z3.And(ln >= 0, ln <= mx))
        s = Str(bs, ln)
    ctx.nondets.append((tag, 'str', s))
    return s


@harness('vNondetInt')
def h_nondet_int(ex, st, g, args, pos):
    tag = cstr(args[0])
    v = z3.BitVec('i_' + tag, W)
    ex.ctx.nondets.append((tag, 'int', v))
    return v


@harness('vNondetBool')
def h_nondet_bool(ex, st, g, args, pos):
    tag = cstr(args[0])
    v = z3.Bool('b_' + tag)
    ex.ctx.nondets.append((tag, 'bool', v))
    return v


@harness('vNondetByte')
def h_nondet_byte(ex, st, g, args, pos):
    tag = cstr(args[0])
    v = z3.BitVec('y_' + tag, 8)
    ex.ctx.nondets.append((tag, 'byte', v))
    return v


@harness('vParam')
def h_param(ex, st, g, args, pos):
    tag = cstr(args[0])
    p = ex.ctx.hooks.get('params', {})
    if tag not in p:
        raise Unsupported('missing harness parameter %s' % tag)
    return p[tag]


@harness('vAssume')
def h_assume(ex, st, g, args, pos):
    g2 = b_and(g, args[0])
    return ret(None, g2)


@harness('vAssert')
def h_assert(ex, st, g, args, pos):
    name = cstr(args[1])
    ex.ctx.oblige('assert', name, b_and(g, b_not(args[0])), pos)
    return None


@harness('vReach')
def h_reach(ex, st, g, args, pos):
    name = cstr(args[0])
    ex.ctx.oblige('reach', name, g, pos)
    return None


@harness('vObserve')
def h_observe(ex, st, g, args, pos):
    """record a named value for model print-out"""
    name = cstr(args[0])
    ex.ctx.effects.append((g, 'observe', (name, args[1])))
    return None


# ------------------------------------------------------------------ regexp
def rx_of(ex, st, v):
    if isinstance(v, Ptr):
        v = get_path(st.heap[v.obj], v.path)
    if not (isinstance(v, LibV) and v.kind == 'Regexp'):
        raise Unsupported('not a regexp: %r' % (v,))
    return v


_QM_SPECIAL = b'\\.+*?()|[]{}^$'


@intr('regexp.QuoteMeta')
def rx_quotemeta(ex, st, g, args, pos):
    def one(s):
        if not s.is_conc():
            raise Unsupported('regexp.QuoteMeta of a symbolic string')
        out = bytearray()
        for c in s.conc():
            if c in _QM_SPECIAL:
                out.append(0x5c)
            out.append(c)
        return s_const(bytes(out))
    return lift_str(ex, st, [args[0]], one)


@intr('regexp.MustCompile')
def rx_mustcompile(ex, st, g, args, pos):
    p = args[0]
    if isinstance(p, ChoiceV):
        # a pattern built from one of several concrete strings (e.g. a map key under a symbolic iteration order)
        res = []
        for ga, pa in alts_of(p):
            res.append((ga, rx_mustcompile(ex, st, b_and(g, ga), [pa] + list(args[1:]), pos)))
        return merge_vals(ex.ctx, st.heap, res)
    if not p.is_conc():
        raise Unsupported('regexp.MustCompile of a symbolic pattern')
    pat = p.conc().decode('utf-8', 'surrogateescape')
    ex.ctx.hooks.setdefault('patterns', {})[pat] = pos
    prog = pike.prog_of(pat)
    if prog is None:
        ex.ctx.terminals.append(('panic', g, {'pos': pos, 'value': 'regexp.MustCompile(%r) fails' % pat}))
        return ret(None, False)
    key = ex.ctx.newobj('rx')
    st.heap[key] = LibV('Regexp', pat=pat)
    return Ptr(key)


def ascii_check(ex, g, s, pos):
    """the oracle reads bytes as runes: subjects must be ASCII"""
    bad = []
    for p in range(s.cap):
        c = i_cmp('>=', s.b[p], 0x80, 8, False)
        if c is False:
            continue
        bad.append(b_and(i_cmp('<', p, s.ln, W, True), c))
    c = b_or(*bad)
    if c is not False:
        ex.ctx.oblige('unsupported', 'non-ASCII subject byte reaches the regexp oracle', b_and(g, c), pos)


def rx_match(ex, st, g, rxv, s, pos, frm=0):
    rx = rx_of(ex, st, rxv)
    prog = pike.prog_of(rx.d['pat'])
    ascii_check(ex, g, s, pos)
    ex.ctx.stats['pike'] = ex.ctx.stats.get('pike', 0) + 1
    try:
        return pike.match(prog, s, frm)
    except pike.Unsupported as e:
        raise Unsupported(str(e))


def group_strs(ex, s, m, caps, ngroups):
    out = []
    for k in range(ngroups):
        lo, hi = caps[2 * k], caps[2 * k + 1]
        if is_c(lo) and is_c(hi):
            out.append(EMPTY if lo < 0 else s_substr(s, lo, hi))
            continue
        unset = i_cmp('<', lo, 0, W, True)
        lo0 = ite(unset, 0, lo, W)
        hi0 = ite(unset, 0, hi, W)
        set_ub(lo0, s.cap) if not is_c(lo0) else None
        set_ub(hi0, s.cap) if not is_c(hi0) else None
        sub = s_substr(s, lo0, hi0)
        out.append(sub)
    return out


def _find_submatch(ex, st, g, args, pos):
    s = args[1]

    def one(sv):
        m, caps, _ = rx_match(ex, st, g, args[0], sv, pos)
        if m is False:
            return NILSLICE
        n = len(caps) // 2
        groups = group_strs(ex, sv, m, caps, n)
        ln = ite(m, n, 0, W)
        return mk_slice(ex, st, groups, ln, b_not(m))
    return lift_str(ex, st, [s], one)


INTR['(*regexp.Regexp).FindStringSubmatch'] = _find_submatch
INTR['(*regexp.Regexp).FindSubmatch'] = _find_submatch


@intr('(*regexp.Regexp).FindAllStringSubmatch')
def rx_findall_sub(ex, st, g, args, pos):
    # only the first match is modelled; len(result) is 1 when there is a match (callers use [0] and nil checks)
    ex.ctx.note('FindAllStringSubmatch: first match only (result length 0 or 1)')
    inner = _find_submatch(ex, st, g, args, pos)
    res = []
    for ga, sl in alts_of(inner):
        if sl.arr is None:
            res.append((ga, NILSLICE))
        else:
            outer = mk_slice(ex, st, [sl], ite(sl.isnil, 0, 1, W), sl.isnil)
            res.append((ga, outer))
    return merge_vals(ex.ctx, st.heap, res)


def _match_string(ex, st, g, args, pos):
    return lift_str(ex, st, [args[1]], lambda sv: rx_match(ex, st, g, args[0], sv, pos)[0])


INTR['(*regexp.Regexp).MatchString'] = _match_string
INTR['(*regexp.Regexp).Match'] = _match_string


@intr('(*regexp.Regexp).FindStringIndex')
def rx_find_index(ex, st, g, args, pos):
    def one(sv):
        m, caps, _ = rx_match(ex, st, g, args[0], sv, pos)
        if m is False:
            return NILSLICE
        return mk_slice(ex, st, [caps[0], caps[1]], ite(m, 2, 0, W), b_not(m))
    return lift_str(ex, st, [args[1]], one)


@intr('(*regexp.Regexp).FindSubmatchIndex')
def rx_find_submatch_index(ex, st, g, args, pos):
    def one(sv):
        m, caps, _ = rx_match(ex, st, g, args[0], sv, pos)
        if m is False:
            return NILSLICE
        return mk_slice(ex, st, list(caps), ite(m, len(caps), 0, W), b_not(m))
    return lift_str(ex, st, [args[1]], one)


INTR['(*regexp.Regexp).FindStringSubmatchIndex'] = rx_find_submatch_index


@intr('(*regexp.Regexp).FindAllStringIndex', '(*regexp.Regexp).FindAllIndex')
def rx_find_all_index(ex, st, g, args, pos):
    """all successive non-overlapping matches as [][]int (n < 0 only); bounded by hook max_findall, beyond = unwind obligation"""
    ctx = ex.ctx
    if not (is_c(args[2]) and args[2] < 0):
        raise Unsupported('FindAllStringIndex with n >= 0')

    def one(s):
        M = ctx.hooks.get('max_findall', 4)
        cur = 0
        done = False
        elems = []
        cnt = 0
        for it in range(M + 1):
            m, caps, _ = rx_match(ex, st, g, args[0], s, pos, frm=cur)
            m = b_and(m, b_not(done))
            if it == M:
                ctx.oblige('unwind', 'FindAllStringIndex: more than %d matches' % M, b_and(g, m), pos)
                break
            if m is False:
                break
            ctx.oblige('unsupported', 'FindAllStringIndex: empty match', b_and(g, m, i_cmp('==', caps[0], caps[1], W, True)), pos)
            a = ite(m, caps[0], 0, W)
            b = ite(m, caps[1], 0, W)
            for t in (a, b):
                if not is_c(t):
                    set_ub(t, s.cap)
            elems.append(mk_slice(ex, st, [a, b], 2))
            cnt = i_bin('+', cnt, ite(m, 1, 0, W), W, True)
            cur = ite(m, caps[1], cur, W)
            if not is_c(cur):
                set_ub(cur, s.cap)
            done = b_or(done, b_not(m))
        if not elems:
            return NILSLICE
        if not is_c(cnt):
            set_ub(cnt, len(elems))
        return mk_slice(ex, st, elems, cnt)
    return lift_str(ex, st, [args[1]], one)


def expand_template(tmpl):
    """Go regexp template: list of ('lit', bytes) | ('grp', n) ; names unsupported"""
    out = []
    i = 0
    t = tmpl
    lit = b''
    while i < len(t):
        c = t[i:i + 1]
        if c != b'$':
            lit += c
            i += 1
            continue
        if t[i + 1:i + 2] == b'$':
            lit += b'$'
            i += 2
            continue
        j = i + 1
        brace = t[j:j + 1] == b'{'
        if brace:
            j += 1
        k = j
        while k < len(t) and (t[k:k + 1].isalnum() or t[k:k + 1] == b'_'):
            k += 1
        name = t[j:k]
        if brace:
            if t[k:k + 1] != b'}' or not name:
                lit += c
                i += 1
                continue
            k += 1
        if not name:
            lit += c
            i += 1
            continue
        if lit:
            out.append(('lit', lit))
            lit = b''
        if name.isdigit():
            out.append(('grp', int(name)))
        else:
            out.append(('grp', -1))   # unknown name -> empty
        i = k
    if lit:
        out.append(('lit', lit))
    return out


def expand_sym(ex, g, t, groups, pos):
    """Go's Regexp.expand for a symbolic template t (numbered groups only; `${` that is not closed is not modelled)"""
    def isname(c):
        return b_or(b_and(i_cmp('>=', c, 48, 8, False), i_cmp('<=', c, 57, 8, False)), b_and(i_cmp('>=', c, 65, 8, False), i_cmp('<=', c, 90, 8, False)),
                    b_and(i_cmp('>=', c, 97, 8, False), i_cmp('<=', c, 122, 8, False)), i_cmp('==', c, 95, 8, False))

    def isdigit(c):
        return b_and(i_cmp('>=', c, 48, 8, False), i_cmp('<=', c, 57, 8, False))

    def group(num):
        r = EMPTY
        for k in range(len(groups) - 1, -1, -1):
            r = s_ite(i_cmp('==', num, k, 8, False), groups[k], r)
        return r
    out = EMPTY
    mode = 0      # 0 text, 1 after '$', 2 in $name, 3 in ${name
    num = 0
    alld = True
    nlen = 0
    DOLLAR = s_const('$')

    def finish(mode, num, alld, nlen):
        """text to emit when a pending reference ends without consuming the current byte"""
        ref = s_ite(b_and(alld, i_cmp('<', num, 100, 8, False)), group(num), EMPTY)
        return s_ite(i_cmp('==', mode, 2, 8, False), ref, s_ite(i_cmp('==', mode, 1, 8, False), DOLLAR, EMPTY))
    for p in range(t.cap + 1):
        inr = i_cmp('<', p, t.ln, W, True) if p < t.cap else False
        c = t.b[p] if p < t.cap else 0
        if p == t.cap or inr is not True:
            # end of template may be here
            atend = i_cmp('==', t.ln, p, W, True)
            if atend is not False:
                ex.ctx.oblige('unsupported', 'template ends inside `${`', b_and(g, atend, i_cmp('==', mode, 3, 8, False)), pos)
                out = s_ite(atend, s_concat(out, finish(mode, num, alld, nlen)), out)
            if p == t.cap or inr is False:
                break
        m0, m1, m2, m3 = (i_cmp('==', mode, k, 8, False) for k in range(4))
        isd = i_cmp('==', c, 36, 8, False)
        nm = isname(c)
        dg = isdigit(c)
        # pieces emitted at this byte
        # mode 0: '$' -> pending; else literal byte
        e0 = s_ite(isd, EMPTY, Str([c], 1))
        # mode 1 (after '$'): '$' -> "$"; '{' -> brace; name char -> start name; else "$" + byte
        isbrace = i_cmp('==', c, 123, 8, False)
        e1 = s_ite(isd, DOLLAR, s_ite(b_or(isbrace, nm), EMPTY, s_concat(DOLLAR, Str([c], 1))))
        # mode 2: name char continues; else reference ends, then byte handled as in mode 0
        ref = s_ite(b_and(alld, i_cmp('<', num, 100, 8, False)), group(num), EMPTY)
        e2 = s_ite(nm, EMPTY, s_concat(ref, e0))
        # mode 3: name char continues; '}' ends with non-empty name; anything else not modelled
        isclose = i_cmp('==', c, 125, 8, False)
        ex.ctx.oblige('unsupported', '`${` reference that is empty or not closed', b_and(g, inr, m3, b_or(b_and(b_not(nm), b_not(isclose)), b_and(isclose, i_cmp('==', nlen, 0, 8, False)))), pos)
        e3 = s_ite(isclose, ref, EMPTY)
        piece = s_ite(m0, e0, s_ite(m1, e1, s_ite(m2, e2, e3)))
        out = s_ite(inr, s_concat(out, piece), out)
        dval = i_bin('-', c, 48, 8, False)
        num_next = ite(i_cmp('<', num, 100, 8, False), i_bin('+', i_bin('*', num, 10, 8, False), dval, 8, False), 100, 8)
        new_mode = ite(m0, ite(isd, 1, 0, 8),
                       ite(m1, ite(isd, 0, ite(isbrace, 3, ite(nm, 2, 0, 8), 8), 8),
                           ite(m2, ite(nm, 2, ite(isd, 1, 0, 8), 8),
                               ite(isclose, 0, 3, 8), 8), 8), 8)
        cont = b_or(b_and(m2, nm), b_and(m3, nm))
        start = b_and(m1, nm)
        num = ite(start, dval, ite(cont, num_next, ite(b_and(m1, isbrace), 0, num, 8), 8), 8)
        alld = ite(start, dg, ite(cont, b_and(alld, dg), ite(b_and(m1, isbrace), True, alld)))
        nlen = ite(start, 1, ite(cont, ite(i_cmp('<', nlen, 200, 8, False), i_bin('+', nlen, 1, 8, False), nlen, 8), ite(b_and(m1, isbrace), 0, nlen, 8), 8), 8)
        mode = ite(inr, new_mode, mode, 8)
    return out


def rx_replace_all(ex, st, g, rxv, s, tmpl_parts, pos, max_matches=None):
    """ReplaceAll with pieces = list of ('lit', Str) | ('grp', n)."""
    ctx = ex.ctx
    rx = rx_of(ex, st, rxv)
    prog = pike.prog_of(rx.d['pat'])
    M = max_matches or ctx.hooks.get('max_replace', 2)
    result = EMPTY
    cur = 0       # position after the previous match
    done = False  # no further match
    rest_from = 0
    for it in range(M + 1):
        m, caps, _ = rx_match(ex, st, g, rxv, s, pos, frm=cur)
        m = b_and(m, b_not(done))
        if it == M:
            # more matches than modelled
            ctx.oblige('unwind', 'ReplaceAll: more than %d matches of %r' % (M, rx.d['pat']), b_and(g, m), pos)
            break
        if m is False:
            break
        n = len(caps) // 2
        st0, en0 = caps[0], caps[1]
        # empty matches are not modelled
        ctx.oblige('unsupported', 'ReplaceAll: empty match of %r' % rx.d['pat'], b_and(g, m, i_cmp('==', st0, en0, W, True)), pos)
        st0c = ite(m, st0, cur, W)
        en0c = ite(m, en0, cur, W)
        for t in (st0c, en0c):
            if not is_c(t):
                set_ub(t, s.cap)
        pre = s_substr(s, cur, st0c)
        piece = pre
        groups = group_strs(ex, s, m, caps, n)
        for kind, v in tmpl_parts:
            if kind == 'lit':
                piece = s_concat(piece, v)
            elif kind == 'sym':
                piece = s_concat(piece, expand_sym(ex, b_and(g, m), v, groups, pos))
            elif kind == 'func':
                # ReplaceAllFunc / ReplaceAllStringFunc: the closure is executed on the matched text (under the match guard)
                gm = b_and(g, m)
                if gm is not False:
                    r, heap2, g2 = ex.call_with_bindings(v.fn, [groups[0]], v.bind, st.heap, gm, pos)
                    st.heap = heap2
                    if g2 is not False and r is not None:
                        piece = s_concat(piece, choice_str(r))
            elif 0 <= v < n:
                piece = s_concat(piece, groups[v])
        result = s_ite(m, s_concat(result, piece), result)
        cur = en0c
        done = b_or(done, b_not(m))
    tail = s_substr(s, cur, s.ln)
    return s_concat(result, tail)


def _split_template(tm):
    """A template whose concrete prefix ends in a closed `${n}` reference (or holds no `$`) and whose symbolic rest cannot
    contain `$` (no byte term has 36 among its possible values) is expanded statically: prefix by the template grammar,
    rest as literal text. Returns None when that cannot be shown (the symbolic template machine is used instead)."""
    if not is_c(tm.ln):
        n = 0
        while n < tm.cap and is_c(tm.b[n]):
            n += 1
    else:
        n = 0
        while n < tm.ln and is_c(tm.b[n]):
            n += 1
    prefix = bytes(tm.b[:n])
    if b'$' in prefix and not prefix.endswith(b'}'):
        return None
    for t in tm.b[n:tm.cap]:
        if is_c(t):
            if t == 36:
                return None
            continue
        lv = z3.leaves(t)
        if lv is None:
            ub, lb = get_ub(t), get_lb(t)
            if ub is None or lb is None or lb <= 36 <= ub:
                return None
        elif 36 in lv:
            return None
    parts = [(k, s_const(v) if k == 'lit' else v) for k, v in expand_template(prefix)]
    rest = Str(tm.b[n:tm.cap], i_bin('-', tm.ln, n, W, True) if not is_c(tm.ln) else tm.ln - n)
    if not is_c(rest.ln):
        set_ub(rest.ln, tm.cap - n)
    parts.append(('lit', rest))
    return parts


@intr('(*regexp.Regexp).ReplaceAllString', '(*regexp.Regexp).ReplaceAll')
def rx_replace_all_string(ex, st, g, args, pos):
    tm = args[2]
    if isinstance(tm, ChoiceV):
        tm = choice_str(tm)
    if tm.is_conc():
        parts = [(k, s_const(v) if k == 'lit' else v) for k, v in expand_template(tm.conc())]
    else:
        parts = _split_template(tm) or [('sym', tm)]
    return lift_str(ex, st, [args[1]], lambda sv: rx_replace_all(ex, st, g, args[0], sv, parts, pos))


@intr('(*regexp.Regexp).ReplaceAllFunc', '(*regexp.Regexp).ReplaceAllStringFunc')
def rx_replace_all_func(ex, st, g, args, pos):
    f = args[2]
    if not isinstance(f, FuncV) or f.fn is None:
        raise Unsupported('ReplaceAllFunc with %r' % (f,))
    return lift_str(ex, st, [args[1]], lambda sv: rx_replace_all(ex, st, g, args[0], sv, [('func', f)], pos))


@intr('(*regexp.Regexp).ReplaceAllLiteralString')
def rx_replace_all_lit(ex, st, g, args, pos):
    return lift_str(ex, st, [args[1], args[2]], lambda sv, r: rx_replace_all(ex, st, g, args[0], sv, [('lit', r)], pos))


@intr('(*regexp.Regexp).FindAllString')
def rx_find_all_string(ex, st, g, args, pos):
    ctx = ex.ctx
    s = args[1]
    M = ctx.hooks.get('max_findall', 4)
    cur = 0
    done = False
    elems = []
    cnt = 0
    for it in range(M + 1):
        m, caps, _ = rx_match(ex, st, g, args[0], s, pos, frm=cur)
        m = b_and(m, b_not(done))
        if it == M:
            ctx.oblige('unwind', 'FindAllString: more than %d matches' % M, b_and(g, m), pos)
            break
        if m is False:
            break
        ctx.oblige('unsupported', 'FindAllString: empty match', b_and(g, m, i_cmp('==', caps[0], caps[1], W, True)), pos)
        a = ite(m, caps[0], 0, W)
        b = ite(m, caps[1], 0, W)
        for t in (a, b):
            if not is_c(t):
                set_ub(t, s.cap)
        elems.append(s_substr(s, a, b))
        cnt = i_bin('+', cnt, ite(m, 1, 0, W), W, True)
        cur = ite(m, caps[1], cur, W)
        if not is_c(cur):
            set_ub(cur, s.cap)
        done = b_or(done, b_not(m))
    if not elems:
        return NILSLICE
    if not is_c(cnt):
        set_ub(cnt, len(elems))
    return mk_slice(ex, st, elems, cnt)


# ------------------------------------------------------------------ strings / bytes
def trim_left_set(s, cutset):
    k = 0
    still = True
    for p in range(s.cap):
        isws = b_and(i_cmp('<', p, s.ln, W, True), b_or(*[i_cmp('==', s.b[p], c, 8, False) for c in cutset]))
        still = b_and(still, isws)
        if still is False:
            break
        k = ite(still, p + 1, k, W)
    if not is_c(k):
        set_ub(k, s.cap)
    return s_substr(s, k, s.ln)


def trim_right_set(s, cutset):
    # end = smallest e such that all bytes in [e, ln) are in cutset
    if is_c(s.ln):
        e = s.ln
        still = True
        for p in range(s.ln - 1, -1, -1):
            isws = b_or(*[i_cmp('==', s.b[p], c, 8, False) for c in cutset])
            still = b_and(still, isws)
            if still is False:
                break
            e = ite(still, p, e, W)
        if not is_c(e):
            set_ub(e, s.cap)
        return s_substr(s, 0, e)
    # symbolic length: suffix-closed predicate computed backwards
    e = s.ln
    allws = True   # all bytes in [p, ln) are ws
    res = s.ln
    for p in range(s.cap - 1, -1, -1):
        inr = i_cmp('<', p, s.ln, W, True)
        isws = b_or(*[i_cmp('==', s.b[p], c, 8, False) for c in cutset])
        allws = b_and(allws, b_or(b_not(inr), isws))
        res = ite(b_and(inr, allws), p, res, W)
    if not is_c(res):
        set_ub(res, s.cap)
    return s_substr(s, 0, res)


ASCII_SPACE = [9, 10, 11, 12, 13, 32]


def trim_space(s):
    return trim_right_set(trim_left_set(s, ASCII_SPACE), ASCII_SPACE)


def _cutset(v):
    if not v.is_conc():
        raise Unsupported('symbolic cutset')
    return list(v.conc())


@intr('strings.TrimLeft', 'bytes.TrimLeft')
def i_trimleft(ex, st, g, args, pos):
    cs = _cutset(args[1])
    return lift_str(ex, st, [args[0]], lambda s: trim_left_set(s, cs))


@intr('strings.TrimSpace', 'bytes.TrimSpace')
def i_trimspace(ex, st, g, args, pos):
    ex.ctx.note('TrimSpace: ASCII white space only (U+0085, U+00A0 not modelled)')
    return lift_str(ex, st, [args[0]], trim_space)


@intr('strings.HasSuffix')
def i_hassuffix(ex, st, g, args, pos):
    return lift_str(ex, st, args[:2], s_has_suffix)


@intr('strings.HasPrefix')
def i_hasprefix(ex, st, g, args, pos):
    return lift_str(ex, st, args[:2], s_has_prefix)


@intr('strings.CutSuffix')
def i_cutsuffix(ex, st, g, args, pos):
    def one(s, suf):
        h = s_has_suffix(s, suf)
        e = ite(h, i_bin('-', s.ln, suf.ln, W, True), s.ln, W)
        if not is_c(e):
            set_ub(e, s.cap)
        return (s_substr(s, 0, e), h)
    return lift_str(ex, st, args[:2], one)


@intr('strings.TrimSuffix', 'bytes.TrimSuffix', 'internal/stringslite.TrimSuffix')
def i_trimsuffix(ex, st, g, args, pos):
    def one(s, suf):
        h = s_has_suffix(s, suf)
        e = ite(h, i_bin('-', s.ln, suf.ln, W, True), s.ln, W)
        if not is_c(e):
            set_ub(e, s.cap)
        return s_substr(s, 0, e)
    return lift_str(ex, st, args[:2], one)


@intr('strings.TrimPrefix', 'bytes.TrimPrefix', 'internal/stringslite.TrimPrefix')
def i_trimprefix(ex, st, g, args, pos):
    def one(s, pre):
        h = s_has_prefix(s, pre)
        b = ite(h, pre.ln, 0, W)
        if not is_c(b):
            set_ub(b, min(s.cap, pre.cap))
        return s_substr(s, b, s.ln)
    return lift_str(ex, st, args[:2], one)


INTR['internal/stringslite.HasSuffix'] = i_hassuffix
INTR['internal/stringslite.HasPrefix'] = i_hasprefix


def match_at(s, p, sub):
    """condition: sub occurs in s at concrete position p (sub may be symbolic); early exit on mismatch"""
    conds = []
    if is_c(sub.ln):
        L = sub.ln
        c = i_cmp('<=', p + L, s.ln, W, True)
        if c is False:
            return False
        conds.append(c)
        for k in range(L):
            c = i_cmp('==', s.at(p + k), sub.b[k], 8, False)
            if c is False:
                return False
            conds.append(c)
        return b_and(*conds)
    c = i_cmp('<=', i_bin('+', sub.ln, p, W, True), s.ln, W, True)
    if c is False:
        return False
    conds.append(c)
    for k in range(sub.cap):
        c = b_or(i_cmp('<=', sub.ln, k, W, True), i_cmp('==', s.at(p + k), sub.b[k], 8, False) if p + k < s.cap else False)
        if c is False:
            return False
        conds.append(c)
    return b_and(*conds)


def s_index(s, sub, frm=0):
    """first index >= frm (concrete) of sub in s, or -1; needle may be symbolic"""
    if is_c(sub.ln) and sub.ln == 0:
        return frm
    r = -1
    for p in range(s.cap, frm - 1, -1):
        hit = match_at(s, p, sub)
        r = ite(hit, p, r, W)
    if not is_c(r):
        pass
    return r


def s_last_index(s, sub):
    r = -1
    for p in range(0, s.cap + 1):
        hit = match_at(s, p, sub)
        r = ite(hit, p, r, W)
    return r


def s_count(s, sub):
    """non-overlapping occurrences (needle non-empty, concrete length)"""
    if not is_c(sub.ln) or sub.ln == 0:
        raise Unsupported('Count with symbolic-length or empty needle')
    L = sub.ln
    cnt = 0
    skip = 0
    for p in range(s.cap):
        hit = b_and(i_cmp('==', skip, 0, 8, False), match_at(s, p, sub))
        cnt = i_bin('+', cnt, ite(hit, 1, 0, W), W, True)
        skip = ite(hit, L - 1, ite(i_cmp('==', skip, 0, 8, False), 0, i_bin('-', skip, 1, 8, False), 8), 8)
    if not is_c(cnt):
        set_ub(cnt, s.cap // L)
    return cnt


@intr('strings.Index', 'bytes.Index', 'internal/bytealg.Index', 'internal/bytealg.IndexString')
def i_index(ex, st, g, args, pos):
    return lift_str(ex, st, args[:2], s_index)


@intr('strings.LastIndex', 'bytes.LastIndex')
def i_last_index(ex, st, g, args, pos):
    return lift_str(ex, st, args[:2], s_last_index)


@intr('strings.IndexByte', 'bytes.IndexByte', 'internal/bytealg.IndexByte', 'internal/bytealg.IndexByteString')
def i_index_byte(ex, st, g, args, pos):
    return lift_str(ex, st, [args[0]], lambda s: s_index(s, Str([args[1]], 1)))


@intr('strings.LastIndexByte', 'bytes.LastIndexByte', 'internal/bytealg.LastIndexByte', 'internal/bytealg.LastIndexByteString')
def i_last_index_byte(ex, st, g, args, pos):
    return lift_str(ex, st, [args[0]], lambda s: s_last_index(s, Str([args[1]], 1)))


@intr('internal/bytealg.Count', 'internal/bytealg.CountString')
def i_count_byte(ex, st, g, args, pos):
    return lift_str(ex, st, [args[0]], lambda s: s_count(s, Str([args[1]], 1)))


@intr('strings.Count', 'bytes.Count')
def i_count(ex, st, g, args, pos):
    return lift_str(ex, st, args[:2], s_count)


@intr('strings.Contains', 'bytes.Contains')
def i_contains(ex, st, g, args, pos):
    return lift_str(ex, st, args[:2], lambda s, sub: i_cmp('>=', s_index(s, sub), 0, W, True))


@intr('internal/bytealg.Equal', 'internal/bytealg.Compare$eq')
def i_bytealg_equal(ex, st, g, args, pos):
    return lift_str(ex, st, args[:2], s_eq)


@intr('internal/bytealg.MakeNoZero')
def i_makenozero(ex, st, g, args, pos):
    n = args[0]
    if not is_c(n):
        raise Unsupported('MakeNoZero with symbolic length')
    return Str([0] * n, n)


@intr('strings.Replace', 'bytes.Replace')
def i_replace_n(ex, st, g, args, pos):
    n = args[3]
    if not is_c(n):
        raise Unsupported('Replace with symbolic count')
    return lift_str(ex, st, args[:3], lambda s, o, nw: replace_all(s, o, nw, n))


@intr('unicode/utf8.DecodeRuneInString', 'unicode/utf8.DecodeRune')
def i_decoderune(ex, st, g, args, pos):
    def one(s):
        (ok, _, r), it = str_next(ex, st, g, IterV('str', s=s, pos=0), pos)
        size = it.d['pos']
        r = ite(ok, r, 0xFFFD, 32)
        size = ite(ok, size, 0, W)
        return (r, size)
    return lift_str(ex, st, [args[0]], one)


@intr('unicode/utf8.RuneLen')
def i_runelen(ex, st, g, args, pos):
    r = args[0]
    if is_c(r):
        return 1 if 0 <= r < 0x80 else 2 if r < 0x800 else 3 if r < 0x10000 else 4
    return ite(i_cmp('<', r, 0x80, 32, True), 1, ite(i_cmp('<', r, 0x800, 32, True), 2, ite(i_cmp('<', r, 0x10000, 32, True), 3, 4, W), W), W)


def replace_all(s, old, new, n=-1):
    """strings.Replace(s, old, new, n) for a non-empty needle of concrete length (bytes may be symbolic)"""
    if n == 0:
        return s
    if not is_c(old.ln):
        raise Unsupported('Replace with symbolic-length needle')
    L = old.ln
    if L == 0:
        raise Unsupported('Replace with empty needle')
    if s.is_conc() and new.is_conc() and old.is_conc():
        return s_const(s.conc().replace(old.conc(), new.conc(), n if n >= 0 else -1))
    out = []
    skip = 0   # remaining bytes of a match being consumed
    done = 0   # replacements made (only tracked when n >= 0)
    for p in range(s.cap):
        inr = i_cmp('<', p, s.ln, W, True)
        if inr is False:
            break
        hit = match_at(s, p, old)
        free = i_cmp('==', skip, 0, 8, False)
        start = b_and(inr, free, hit)
        if n >= 0:
            start = b_and(start, i_cmp('<', done, n, 8, False))
            done = ite(start, i_bin('+', done, 1, 8, False), done, 8)
        emit = b_and(inr, free, b_not(start))
        piece = s_ite(start, new, s_ite(emit, Str([s.b[p]], 1), EMPTY))
        out.append(piece)
        skip = ite(start, L - 1, ite(free, 0, i_bin('-', skip, 1, 8, False), 8), 8)
    res = s_concat_all(out)
    # tight length bound: every replaced needle of L bytes yields at most new.cap bytes
    ubs = get_ub(s.ln) if not is_c(s.ln) else s.ln
    ubs = min(ubs if ubs is not None else s.cap, s.cap)
    nb = new.cap if not is_c(new.ln) else new.ln
    bound = ubs if nb <= L else (ubs // L) * nb + ubs % L
    return s_narrow(res, bound)


@intr('strings.ReplaceAll', 'bytes.ReplaceAll')
def i_replaceall(ex, st, g, args, pos):
    return lift_str(ex, st, args[:3], replace_all)


@intr('strings.Join')
def i_join(ex, st, g, args, pos):
    sl, sep = args

    def one(sl, sep):
        if sl.arr is None:
            return EMPTY
        es = slice_elems(st.heap, sl)
        if is_c(sl.ln):
            parts = []
            for i in range(sl.ln):
                if i:
                    parts.append(sep)
                parts.append(es[i])
            return s_concat_all(parts)
        n = min(sl.cap, get_ub(sl.ln) or sl.cap)
        r = EMPTY
        for i in range(n):
            inr = i_cmp('<', i, sl.ln, W, True)
            add = s_concat(sep, es[i]) if i else es[i]
            r = s_ite(inr, s_concat(r, add), r)
        return r
    return lift_str(ex, st, [sl, sep], one)


INTR['bytes.Join'] = i_join


def split(ex, st, s, sep, maxparts=None):
    if not sep.is_conc() or len(sep.conc()) != 1:
        raise Unsupported('Split with separator other than one constant byte')
    c = sep.conc()[0]
    if s.is_conc():
        return mk_slice(ex, st, [s_const(x) for x in s.conc().split(bytes([c]))])
    # positions of separators
    maxparts = maxparts or ex.ctx.hooks.get('max_split', 24)
    parts = []
    start = 0
    cnt = 1
    active = True  # current part exists
    for k in range(maxparts):
        # end of part k = first separator at/after start, else ln
        e = s.ln
        found = False
        for p in range(s.cap - 1, -1, -1):
            hit = b_and(i_cmp('<', p, s.ln, W, True), i_cmp('<=', start, p, W, True), i_cmp('==', s.b[p], c, 8, False))
            e = ite(hit, p, e, W)
            found = b_or(found, hit)
        if not is_c(e):
            set_ub(e, s.cap)
        parts.append(s_substr(s, start, e))
        if found is False:
            break
        nxt = i_bin('+', e, 1, W, True)
        more = b_and(active, found)
        if k == maxparts - 1:
            ex.ctx.oblige('unwind', 'Split: more than %d parts' % maxparts, more, None)
            break
        cnt = i_bin('+', cnt, ite(more, 1, 0, W), W, True)
        start = ite(more, nxt, s.ln, W)
        if not is_c(start):
            set_ub(start, s.cap)
        active = more
    if not is_c(cnt):
        set_ub(cnt, len(parts))
    return mk_slice(ex, st, parts, cnt)


ASCII_SPACE = (9, 10, 11, 12, 13, 32)


def fields(ex, st, s):
    """strings.Fields for subjects over ASCII (the harness alphabets): maximal runs of bytes outside \t\n\v\f\r and blank.
    (For bytes >= 0x80 the real function decodes UTF-8 and also splits at U+0085/U+00A0...: outside the model.)"""
    if s.is_conc():
        return mk_slice(ex, st, [s_const(x) for x in s.conc().split()])
    ex.ctx.note('strings.Fields modelled for ASCII subjects: fields are maximal runs of bytes other than \\t \\n \\v \\f \\r and blank')
    issp = [b_or(*[i_cmp('==', s.b[p], c, 8, False) for c in ASCII_SPACE]) for p in range(s.cap)]
    maxf = (s.cap + 1) // 2
    parts = []
    start = 0
    cnt = 0
    for k in range(maxf):
        fs = s.ln
        for p in range(s.cap - 1, -1, -1):
            hit = b_and(i_cmp('<', p, s.ln, W, True), i_cmp('<=', start, p, W, True), b_not(issp[p]))
            fs = ite(hit, p, fs, W)
        if not is_c(fs):
            set_ub(fs, s.cap)
        fe = s.ln
        for p in range(s.cap - 1, -1, -1):
            hit = b_and(i_cmp('<', p, s.ln, W, True), i_cmp('<=', fs, p, W, True), issp[p])
            fe = ite(hit, p, fe, W)
        if not is_c(fe):
            set_ub(fe, s.cap)
        found = i_cmp('<', fs, s.ln, W, True)
        if found is False:
            break
        parts.append(s_substr(s, fs, fe))
        cnt = i_bin('+', cnt, ite(found, 1, 0, W), W, True)
        start = fe
    if not is_c(cnt):
        set_ub(cnt, len(parts))
    return mk_slice(ex, st, parts, cnt)


@intr('strings.Fields', 'bytes.Fields')
def i_fields(ex, st, g, args, pos):
    return lift_str(ex, st, args[:1], lambda s: fields(ex, st, s))


@intr('strings.Split', 'bytes.Split')
def i_split(ex, st, g, args, pos):
    return lift_str(ex, st, args[:2], lambda s, sep: split(ex, st, s, sep))


@intr('strings.Repeat', 'bytes.Repeat')
def i_repeat(ex, st, g, args, pos):
    s, n = args
    if not s.is_conc():
        raise Unsupported('Repeat of symbolic string')
    if is_c(n):
        if n < 0:
            ex.ctx.terminals.append(('panic', g, {'pos': pos, 'value': 'Repeat: negative count'}))
            return ret(None, False)
        return s_const(s.conc() * n)
    ub = get_ub(n)
    mx = ex.ctx.hooks.get('max_repeat', 8)
    if ub is not None:
        mx = min(mx, ub)
    ex.ctx.oblige('panic', 'strings.Repeat: negative count', b_and(g, i_cmp('<', n, 0, W, True)), pos)
    ex.ctx.oblige('unwind', 'Repeat: count above %d' % mx, b_and(g, i_cmp('>', n, mx, W, True)), pos)
    g2 = b_and(g, i_cmp('>=', n, 0, W, True), i_cmp('<=', n, mx, W, True))
    unit = s.conc()
    L = len(unit)
    bytes_ = list(unit * mx)
    ln = i_bin('*', n, L, W, True) if L != 1 else n
    if not is_c(ln):
        set_ub(ln, L * mx)
    return ret(Str(bytes_, ln), g2)


@intr('bytes.Equal')
def i_bytes_equal(ex, st, g, args, pos):
    return lift_str(ex, st, args[:2], s_eq)


@intr('strings.NewReader', 'bytes.NewReader', 'bytes.NewBufferString', 'bytes.NewBuffer', 'bufio.NewReader', 'bufio.NewReaderSize')
def i_newreader(ex, st, g, args, pos):
    a = args[0]
    if isinstance(a, Ptr):   # bufio.NewReader(reader)
        return a
    if isinstance(a, IfaceV):
        return a.v
    key = ex.ctx.newobj('buf')
    st.heap[key] = LibV('Buffer', s=[a], consumed=False)
    return Ptr(key)


# strings.Builder / bytes.Buffer --------------------------------------------------
def lib_zero_builder():
    return LibV('Builder', s=[])


def lib_zero_buffer():
    return LibV('Buffer', s=[], consumed=False)


def rope_str(parts):
    """materialise a rope (list of pieces) ; the list is collapsed in place so the work is done once"""
    if isinstance(parts, (Str, ChoiceV)):
        return parts
    if any(isinstance(p, ChoiceV) for p in parts):
        alts = [(True, EMPTY)]
        for p in parts:
            new = []
            for g1, a in alts:
                for g2, b in alts_of(p):
                    gg = b_and(g1, g2)
                    if gg is not False:
                        new.append((gg, s_concat(a, b)))
            r = mkchoice(new)
            alts = list(r.alts) if isinstance(r, ChoiceV) else [(True, r)]
        r = mkchoice(alts)
        parts[:] = [r]
        return r
    if len(parts) != 1:
        r = s_concat_all(parts)
        parts[:] = [r]
    return parts[0] if parts else EMPTY


LIB_ZERO['strings.Builder'] = lib_zero_builder
LIB_ZERO['bytes.Buffer'] = lib_zero_buffer


def _recv(ex, st, g, p, pos):
    return ex.load(st, g, p, pos)


def _append_to(ex, st, g, p, piece, pos):
    for ga, pa in alts_of(p):
        if pa.obj is None:
            ex.ctx.oblige('panic', 'nil dereference (builder)', b_and(g, ga), pos)
            continue
        o = get_path(st.heap[pa.obj], pa.path)
        if ex.ctx.hooks.get('choice_strings') and ga is True:
            pc = piece
        else:
            pc = EMPTY
            for gb, pb in alts_of(piece):
                pc = s_ite(b_and(ga, gb), pb, pc)
        parts = o.d['s']
        parts = list(parts) if isinstance(parts, list) else [parts]
        parts.append(pc)
        st.heap[pa.obj] = set_path(st.heap[pa.obj], pa.path, o.with_(s=parts))


@intr('(*strings.Builder).WriteString', '(*bytes.Buffer).WriteString', '(*bytes.Buffer).Write')
def i_writestring(ex, st, g, args, pos):
    _append_to(ex, st, g, args[0], args[1], pos)
    ln = lift_str(ex, st, [args[1]], lambda s: s.ln)
    return (ln, NILIFACE)


@intr('(*strings.Builder).WriteByte', '(*bytes.Buffer).WriteByte')
def i_writebyte(ex, st, g, args, pos):
    _append_to(ex, st, g, args[0], Str([args[1]], 1), pos)
    return NILIFACE


@intr('(*strings.Builder).WriteRune', '(*bytes.Buffer).WriteRune')
def i_writerune(ex, st, g, args, pos):
    s = rune_to_str(ex, args[1], (32, True), g, pos)
    _append_to(ex, st, g, args[0], s, pos)
    return (s.ln, NILIFACE)


@intr('(*strings.Builder).String', '(*bytes.Buffer).String', '(*bytes.Buffer).Bytes')
def i_builder_string(ex, st, g, args, pos):
    if isinstance(args[0], Ptr) and args[0].obj is None:
        return s_const('<nil>')
    o = _recv(ex, st, g, args[0], pos)
    return lift_str(ex, st, [o], lambda o: rope_str(o.d['s']))


@intr('(*strings.Builder).Len', '(*bytes.Buffer).Len')
def i_builder_len(ex, st, g, args, pos):
    o = _recv(ex, st, g, args[0], pos)
    return lift_str(ex, st, [o], lambda o: rope_str(o.d['s']).ln)


@intr('(*strings.Builder).Reset', '(*bytes.Buffer).Reset')
def i_builder_reset(ex, st, g, args, pos):
    o = _recv(ex, st, g, args[0], pos)
    ex.store(st, g, args[0], LibV(o.kind if not isinstance(o, ChoiceV) else 'Builder', **({'s': []} if (isinstance(o, LibV) and o.kind == 'Builder') else {'s': [], 'consumed': False})), pos)
    return None


@intr('(*strings.Builder).Grow', '(*bytes.Buffer).Grow')
def i_builder_grow(ex, st, g, args, pos):
    return None


@intr('(*bytes.Buffer).WriteTo')
def i_buffer_writeto(ex, st, g, args, pos):
    o = _recv(ex, st, g, args[0], pos)
    w = args[1]
    if isinstance(w, IfaceV):
        w = w.v
    content = rope_str(o.d['s'])
    _append_to(ex, st, g, w, content, pos)
    # after WriteTo the buffer is empty and the last operation is not a read that can be unread...
    # bytes.Buffer.WriteTo sets lastRead = opInvalid and, when everything was written, Reset()s the buffer
    ex.store(st, g, args[0], LibV('Buffer', s=[], consumed=True), pos)
    return (content.ln, NILIFACE)


@intr('(*bytes.Buffer).UnreadByte')
def i_buffer_unreadbyte(ex, st, g, args, pos):
    o = _recv(ex, st, g, args[0], pos)
    # contract: succeeds only if the last operation was a successful read; after WriteTo / writes it fails.
    if not (isinstance(o, LibV) and o.kind == 'Buffer'):
        raise Unsupported('UnreadByte receiver')
    ex.ctx.note('bytes.Buffer.UnreadByte modelled as failing unless preceded by ReadByte (never the case in the encoded callers)')
    return IfaceV('error:opaque', s_const('bytes.Buffer: UnreadByte: previous operation was not a successful read'))


@intr('(*bytes.Buffer).ReadByte')
def i_buffer_readbyte(ex, st, g, args, pos):
    raise Unsupported('bytes.Buffer.ReadByte')


# ------------------------------------------------------------------ fmt / strconv / errors
def fmt_value(ex, st, g, v, verb, pos):
    """format an interface value with %s/%v/%d/%x"""
    res = []
    for ga, va in alts_of(v):
        if isinstance(va, IfaceV):
            t, x = va.t, va.v
        else:
            t, x = None, va
        if t is None and x is None:
            res.append((ga, s_const('%!' + verb + '(<nil>)' if verb != 'v' else '<nil>')))
            continue
        k = ex.prog.kind(t) if t in ex.prog.types else None
        for gb, xb in alts_of(x):
            gg = b_and(ga, gb)
            if isinstance(xb, Str):
                if verb in ('s', 'v'):
                    res.append((gg, xb))
                elif verb == 'q':
                    res.append((gg, s_concat_all([s_const('"'), xb, s_const('"')])))
                elif verb == 'x':
                    raise Unsupported('%x of string')
                else:
                    res.append((gg, xb))
            elif k == 'int':
                bits, signed = ex.intinfo(t)
                if verb in ('d', 'v'):
                    res.append((gg, itoa(ex, g, xb, bits, signed, 10, pos)))
                elif verb == 'x':
                    res.append((gg, itoa(ex, g, xb, bits, signed, 16, pos)))
                elif verb == 'c':
                    res.append((gg, rune_to_str(ex, xb, (bits, signed), g, pos)))
                elif verb == 's':
                    res.append((gg, s_const('%!s(int=?)')))
                else:
                    raise Unsupported('verb %' + verb + ' for int')
            elif k == 'bool':
                res.append((gg, s_ite(xb, s_const('true'), s_const('false'))))
            elif isinstance(xb, IfaceV) or (t and t.startswith('error')) or (isinstance(xb, Ptr) and t and ex.prog.methods.get(t, {}).get('Error')):
                res.append((gg, s_const('<error>')))
            else:
                res.append((gg, s_const('<value>')))
    return merge_vals(ex.ctx, st.heap, res)


def itoa(ex, g, x, bits, signed, base, pos, maxdigits=None):
    digs = b'0123456789abcdef'
    if is_c(x):
        neg = x < 0
        n = abs(x)
        s = b''
        if n == 0:
            s = b'0'
        while n:
            s = bytes([digs[n % base]]) + s
            n //= base
        return s_const((b'-' if neg else b'') + s)
    # a counter with a small set of possible values: format each value, select by equality (no division in the formula)
    vs = vals_of(x, 24)
    if vs is not None:
        alts = [(i_cmp('==', x, v, bits, signed), itoa(ex, g, v, bits, signed, base, pos)) for v in vs]
        out = alts[-1][1]
        for c, sv in reversed(alts[:-1]):
            out = s_ite(c, sv, out)
        return out
    ub = get_ub(x)
    md = maxdigits or ex.ctx.hooks.get('max_digits', 3)
    lim = base ** md
    if ub is not None and ub < lim:
        pass
    else:
        ex.ctx.oblige('unwind', 'itoa: value needs more than %d digits (or is negative)' % md,
                      b_and(g, b_not(b_and(i_cmp('>=', x, 0, bits, True), i_cmp('<', x, lim, bits, True)))), pos)
    xv = bv(x, bits)
    # digits from most significant
    parts = []
    out = EMPTY
    started = False
    for d in range(md - 1, -1, -1):
        p = base ** d
        dig = z3.URem(z3.UDiv(xv, z3.BitVecVal(p, bits)), z3.BitVecVal(base, bits))
        dig8 = z3.Extract(7, 0, dig)
        ch = z3.If(z3.ULT(dig8, 10), dig8 + 48, dig8 + 87)
        nz = z3.UGE(xv, z3.BitVecVal(p, bits)) if d > 0 else True
        out = s_ite(nz, s_concat(out, Str([ch], 1)), out)
    return out


def sprintf(ex, st, g, fmtv, argsv, pos):
    if not fmtv.is_conc():
        raise Unsupported('Sprintf with symbolic format')
    f = fmtv.conc()
    parts = []
    i = 0
    ai = 0
    lit = b''
    while i < len(f):
        c = f[i:i + 1]
        if c != b'%':
            lit += c
            i += 1
            continue
        if f[i + 1:i + 2] == b'%':
            lit += b'%'
            i += 2
            continue
        verb = f[i + 1:i + 2].decode()
        if verb == 'w':
            verb = 'v'    # Errorf wraps the operand; its text is that of %v (unwrapping is not modelled: errors.Is sees the outer error)
        if verb not in 'svdxqc':
            raise Unsupported('Sprintf verb %' + verb)
        if lit:
            parts.append(s_const(lit))
            lit = b''
        if ai >= len(argsv):
            parts.append(s_const('%!' + verb + '(MISSING)'))
        else:
            parts.append(fmt_value(ex, st, g, argsv[ai], verb, pos))
        ai += 1
        i += 2
    if lit:
        parts.append(s_const(lit))
    return lift_str(ex, st, parts, lambda *ps: s_concat_all(ps))


def variadic(ex, st, v):
    if isinstance(v, Ptr) and v.obj is None:
        return []
    if isinstance(v, SliceV):
        if v.arr is None:
            return []
        if not is_c(v.ln):
            raise Unsupported('symbolic variadic length')
        return slice_elems(st.heap, v)[:v.ln]
    raise Unsupported('variadic arg %r' % (v,))


@intr('fmt.Sprintf')
def i_sprintf(ex, st, g, args, pos):
    return sprintf(ex, st, g, args[0], variadic(ex, st, args[1]), pos)


@intr('fmt.Errorf')
def i_errorf(ex, st, g, args, pos):
    return IfaceV('error:opaque', sprintf(ex, st, g, args[0], variadic(ex, st, args[1]), pos))


@intr('fmt.Sprint')
def i_sprint(ex, st, g, args, pos):
    vs = variadic(ex, st, args[0])
    parts = []
    prev_str = True
    for i, v in enumerate(vs):
        is_str = isinstance(v, IfaceV) and v.t is not None and ex.prog.kind(v.t) == 'string'
        if i > 0 and not is_str and not prev_str:
            parts.append(s_const(' '))
        parts.append(fmt_value(ex, st, g, v, 'v', pos))
        prev_str = is_str
    return lift_str(ex, st, parts, lambda *ps: s_concat_all(ps))


def _stdout(ex, st, g, s):
    ex.ctx.effects.append((g, 'stdout', s))


@intr('fmt.Println')
def i_println(ex, st, g, args, pos):
    vs = variadic(ex, st, args[0])
    parts = []
    for i, v in enumerate(vs):
        if i:
            parts.append(s_const(' '))
        parts.append(fmt_value(ex, st, g, v, 'v', pos))
    parts.append(s_const('\n'))
    _stdout(ex, st, g, lift_str(ex, st, parts, lambda *ps: s_concat_all(ps)))
    return (0, NILIFACE)


@intr('fmt.Printf')
def i_printf(ex, st, g, args, pos):
    _stdout(ex, st, g, sprintf(ex, st, g, args[0], variadic(ex, st, args[1]), pos))
    return (0, NILIFACE)


@intr('fmt.Print')
def i_print(ex, st, g, args, pos):
    _stdout(ex, st, g, i_sprint(ex, st, g, args, pos))
    return (0, NILIFACE)


@intr('errors.New')
def i_errors_new(ex, st, g, args, pos):
    key = ex.ctx.newobj('err')
    st.heap[key] = StructV([args[0]])
    return IfaceV('*errors.errorString', Ptr(key))


@intr('(*errors.errorString).Error', 'invoke:*errors.errorString.Error')
def i_errstr_error(ex, st, g, args, pos):
    return get_path(st.heap[args[0].obj], args[0].path).f[0]


@intr('invoke:error:opaque.Error')
def i_opaque_error(ex, st, g, args, pos):
    return args[0] if isinstance(args[0], Str) else s_const('<error>')


@intr('errors.Is')
def i_errors_is(ex, st, g, args, pos):
    ex.ctx.note('errors.Is(err, target): true iff err is non-nil with the same dynamic type as target and (zero-size pointee or identical pointer)')
    def one(e, t):
        if e.t is None or t.t is None:
            return e.t is None and t.t is None
        if e.t != t.t:
            return False
        d = ex.prog.types.get(e.t)
        if d and d['k'] == 'ptr':
            u = ex.prog.under(d['elem'])
            if u['k'] == 'struct' and not u['fields']:
                return True
        return ex.equal(e.v, t.v)
    return lift_str(ex, st, args[:2], one)


@intr('strconv.ParseUint')
def i_parseuint(ex, st, g, args, pos):
    s, base, bitsize = args
    if not (is_c(base) and base == 10 and is_c(bitsize)):
        raise Unsupported('ParseUint base/bitSize')
    if bitsize == 0:
        bitsize = 64

    def one(s):
        lim = (1 << bitsize) - 1
        if s.is_conc():
            t = s.conc()
            if not t or not t.isdigit():
                return (0, IfaceV('error:opaque', s_const('strconv.ParseUint: invalid syntax')))
            v = int(t)
            if v > lim:
                return (lim, IfaceV('error:opaque', s_const('strconv.ParseUint: value out of range')))
            return (v, NILIFACE)
        # symbolic: digits only, value accumulated in 80 bits with a saturation flag (no wrap-around)
        ok = i_cmp('>', s.ln, 0, W, True)
        over = False
        v = z3.BitVecVal(0, 80)
        for p in range(s.cap):
            inr = i_cmp('<', p, s.ln, W, True)
            if inr is False:
                break
            d = s.b[p]
            isd = b_and(i_cmp('>=', d, 48, 8, False), i_cmp('<=', d, 57, 8, False))
            ok = b_and(ok, b_or(b_not(inr), isd))
            nv = v * 10 + z3.ZeroExt(72, bv(d, 8) - 48)
            over = b_or(over, b_and(inr, z3.UGT(nv, lim)))
            v = z3.If(bl(b_and(inr, b_not(over))), nv, v)
        v = z3.Extract(63, 0, v)
        val = ite(ok, ite(over, lim, v, 64), 0, 64)
        set_ub(val, lim) if not is_c(val) else None
        errc = b_or(b_not(ok), over)
        err = merge_vals(ex.ctx, st.heap, [(errc, IfaceV('error:opaque', s_const('strconv.ParseUint: error'))), (True, NILIFACE)])
        return (val, err)
    return lift_str(ex, st, [s], one)


@intr('strconv.Itoa')
def i_itoa(ex, st, g, args, pos):
    return itoa(ex, g, args[0], W, True, 10, pos)


@intr('strconv.FormatUint', 'strconv.FormatInt')
def i_formatuint(ex, st, g, args, pos):
    if not is_c(args[1]) or args[1] not in (10, 16):
        raise Unsupported('FormatUint base')
    return itoa(ex, g, args[0], W, False, args[1], pos)


# ------------------------------------------------------------------ path
def path_ext(s):
    # suffix beginning at the final dot in the final slash-separated element; empty if no dot
    r = EMPTY
    stop = False
    if s.is_conc():
        t = s.conc()
        i = len(t) - 1
        while i >= 0 and t[i:i + 1] != b'/':
            if t[i:i + 1] == b'.':
                return s_const(t[i:])
            i -= 1
        return EMPTY
    start = -1
    done = False
    for p in range(s.cap - 1, -1, -1):
        inr = i_cmp('<', p, s.ln, W, True)
        isdot = b_and(inr, i_cmp('==', s.b[p], 46, 8, False))
        isslash = b_and(inr, i_cmp('==', s.b[p], 47, 8, False))
        take = b_and(b_not(done), isdot)
        start = ite(take, p, start, W)
        done = b_or(done, isdot, isslash)
    has = i_cmp('>=', start, 0, W, True)
    st0 = ite(has, start, s.ln, W)
    if not is_c(st0):
        set_ub(st0, s.cap)
    return s_substr(s, st0, s.ln)


@intr('path.Ext', 'path/filepath.Ext')
def i_path_ext(ex, st, g, args, pos):
    return lift_str(ex, st, [args[0]], path_ext)


def _conc_only(name, f):
    def g_(ex, st, g, args, pos):
        def one(*a):
            for x in a:
                if isinstance(x, Str) and not x.is_conc():
                    raise Unsupported('%s on symbolic string' % name)
            return f(*a)
        return lift_str(ex, st, list(args), one)
    return g_


import posixpath


def _pjoin(ex, st, g, args, pos):
    parts = variadic(ex, st, args[0])

    def one(*ps):
        if all(p.is_conc() for p in ps):
            ne = [p.conc().decode('latin1') for p in ps if p.conc()]
            if not ne:
                return EMPTY
            return s_const(posixpath.normpath('/'.join(ne)).encode('latin1')) if True else None
        # symbolic last component appended verbatim to a clean concrete prefix: requires clean component
        pre = [p for p in ps[:-1]]
        if all(p.is_conc() for p in pre):
            prefix = posixpath.normpath('/'.join(p.conc().decode('latin1') for p in pre if p.conc()))
            ex.ctx.note('path.Join with a symbolic final component: component assumed clean (no "/", not "." or "..", non-empty)')
            return s_concat(s_const(prefix + '/'), ps[-1])
        raise Unsupported('path.Join with symbolic non-final component')
    return lift_str(ex, st, parts, one)


INTR['path.Join'] = _pjoin
INTR['path/filepath.Join'] = _pjoin


def path_base(s):
    if s.is_conc():
        return s_const(posixpath.basename(s.conc().rstrip(b'/')) or (b'/' if s.conc() else b'.'))
    raise Unsupported('path.Base on symbolic string')


def path_dir(s):
    if s.is_conc():
        t = s.conc().decode('latin1')
        d = posixpath.dirname(t)
        d = posixpath.normpath(d) if d else '.'
        return s_const(d.encode('latin1'))
    raise Unsupported('path.Dir on symbolic string')


INTR['path.Base'] = lambda ex, st, g, args, pos: lift_str(ex, st, [args[0]], path_base)
INTR['path/filepath.Base'] = INTR['path.Base']
INTR['path.Dir'] = lambda ex, st, g, args, pos: lift_str(ex, st, [args[0]], path_dir)


@intr('path/filepath.IsAbs')
def i_isabs(ex, st, g, args, pos):
    return lift_str(ex, st, [args[0]], lambda s: b_and(i_cmp('>', s.ln, 0, W, True), i_cmp('==', s.at(0), 47, 8, False)))


# ------------------------------------------------------------------ math/bits
@intr('math/bits.Len', 'math/bits.Len64')
def i_bits_len(ex, st, g, args, pos):
    x = args[0]
    if is_c(x):
        return (x & mask(W)).bit_length()
    r = 0
    for k in range(1, W + 1):
        r = ite(z3.UGE(x, z3.BitVecVal(1 << (k - 1), W)), k, r, W)
    return r


# ------------------------------------------------------------------ maps
@intr('maps.clone')
def i_maps_clone(ex, st, g, args, pos):
    """runtime-implemented shallow copy behind maps.Clone: a new map object with the same entries"""
    res = []
    for ga, a in alts_of(args[0]):
        if not isinstance(a, IfaceV) or not isinstance(a.v, Ptr):
            raise Unsupported('maps.clone of %r' % (a,))
        if a.v.obj is None:
            res.append((ga, a))
            continue
        key = ex.ctx.newobj('m')
        st.heap[key] = MapV([list(e) for e in st.heap[a.v.obj].entries])
        res.append((ga, IfaceV(a.t, Ptr(key))))
    return merge_vals(ex.ctx, st.heap, res)


# ------------------------------------------------------------------ sort
def choice_str(v):
    """a choice among strings folded into one symbolic string"""
    if not isinstance(v, ChoiceV):
        return v
    al = list(alts_of(v))
    out = al[-1][1]
    for ga, a in reversed(al[:-1]):
        out = s_ite(ga, a, out)
    return out


@intr('sort.Strings')
def i_sort_strings(ex, st, g, args, pos):
    sl = args[0]
    if sl.arr is None:
        return None
    if is_c(sl.ln):
        n = sl.ln
        es = list(slice_elems(st.heap, sl)[:n])
        valid = [True] * n
    else:
        n = min(sl.cap, get_ub(sl.ln) if get_ub(sl.ln) is not None else sl.cap)
        es = list(slice_elems(st.heap, sl)[:n])
        es = [e if e is not None else EMPTY for e in es]
        valid = [i_cmp('<', i, sl.ln, W, True) for i in range(n)]
    # elements that are choices among concrete strings (e.g. map keys collected under a symbolic iteration order): when
    # the solver shows that they are pairwise different, the slice is a permutation of a known set and the sorted result
    # is concrete
    if n > 1 and all(v is True for v in valid) and any(isinstance(e, ChoiceV) for e in es):
        cal = [[(ga, a) for ga, a in alts_of(e)] for e in es]
        if all(isinstance(a, Str) and a.is_conc() for al in cal for _, a in al):
            vals = sorted({a.conc() for al in cal for _, a in al})
            if len(vals) == n:
                clash = []
                for i in range(n):
                    for j in range(i + 1, n):
                        for ga, a in cal[i]:
                            for gb, b in cal[j]:
                                if a.conc() == b.conc():
                                    clash.append(b_and(ga, gb))
                c = b_and(g, b_or(*clash)) if clash else False
                distinct = c is False
                if not distinct and c is not True:
                    sv = z3.Solver()
                    sv.set('timeout', 20000)
                    for a in ex.ctx.assumptions:
                        sv.add(a)
                    sv.add(bl(c))
                    distinct = sv.check() == z3.unsat
                if distinct:
                    arr = st.heap[sl.arr]
                    e = list(arr.e)
                    e[sl.off:sl.off + n] = [s_const(v) for v in vals]
                    st.heap[sl.arr] = ArrayV(e)
                    ex.ctx.note('sort.Strings of a permutation of distinct constant strings: result concrete (distinctness shown by the solver)')
                    return None
    es = [choice_str(e) for e in es]
    # odd-even transposition network; slots beyond the length sort to the end
    for rnd in range(n):
        for i in range(rnd % 2, n - 1, 2):
            sw = b_and(valid[i + 1], b_or(b_not(valid[i]), s_lt(es[i + 1], es[i])))
            a, b = es[i], es[i + 1]
            es[i] = s_ite(sw, b, a)
            es[i + 1] = s_ite(sw, a, b)
            va, vb = valid[i], valid[i + 1]
            valid[i] = ite(sw, vb, va)
            valid[i + 1] = ite(sw, va, vb)
    arr = st.heap[sl.arr]
    e = list(arr.e)
    e[sl.off:sl.off + n] = es
    st.heap[sl.arr] = ArrayV(e)
    return None


# ------------------------------------------------------------------ zerolog
LEVELS = {'Trace', 'Debug', 'Info', 'Warn', 'Error', 'Fatal', 'Panic'}
for lv in LEVELS:
    def mk(lv):
        def f(ex, st, g, args, pos):
            return LibV('Event', level=lv)
        return f
    INTR['(*github.com/rs/zerolog.Logger).' + lv] = mk(lv)


def _event_passthrough(ex, st, g, args, pos):
    return args[0]


for m in ('Err', 'Str', 'Int', 'Bool', 'Strs', 'Interface', 'Stack', 'Caller'):
    INTR['(*github.com/rs/zerolog.Event).' + m] = _event_passthrough


def _event_end(ex, st, g, args, pos):
    res_g = g
    for ga, e in alts_of(args[0]):
        lv = e.d['level']
        if lv == 'Fatal':
            ex.ctx.terminals.append(('fatal', b_and(g, ga), {'pos': pos}))
            res_g = b_and(res_g, b_not(ga))
        elif lv == 'Panic':
            ex.ctx.terminals.append(('logpanic', b_and(g, ga), {'pos': pos}))
            res_g = b_and(res_g, b_not(ga))
    return ret(None, res_g)


for m in ('Msg', 'Msgf', 'Send'):
    INTR['(*github.com/rs/zerolog.Event).' + m] = _event_end


@intr('os.Exit')
def i_os_exit(ex, st, g, args, pos):
    ex.ctx.terminals.append(('exit', g, {'pos': pos, 'code': args[0]}))
    return ret(None, False)


# ------------------------------------------------------------------ file system model
def fs_get(st):
    fs = st.heap.get('FS')
    if fs is None:
        fs = st.heap['FS'] = LibV('FS', files={}, n=0)
    return fs


def cpath(v):
    if not (isinstance(v, Str) and v.is_conc()):
        raise Unsupported('file path must be concrete in the file-system model')
    return posixpath.normpath(v.conc().decode('latin1'))


LONG_SENTINEL = b'<<LINE-OF-70000-B>>'


@harness('vLongLine')
def h_longline(ex, st, g, args, pos):
    ex.ctx.note('a line longer than the Scanner token limit is represented by a sentinel; the Scanner model stops with ErrTooLong on it unless Buffer() raised the limit above 70000')
    return s_const(LONG_SENTINEL)


@harness('vStubJoin')
def h_stub_join(ex, st, g, args, pos):
    st.heap['STUB:join'] = args[0]
    return None


@harness('vStubJoinError')
def h_stub_join_error(ex, st, g, args, pos):
    st.heap['STUB:join_error'] = True
    return None


@harness('vStubJoinEcho')
def h_stub_join_echo(ex, st, g, args, pos):
    st.heap['STUB:join_echo'] = True
    return None


@intr('github.com/itchyny/rassemble-go.Join')
def i_rassemble_join(ex, st, g, args, pos):
    if st.heap.get('STUB:join_echo') and not st.heap.get('STUB:join_error'):
        ex.ctx.note('rassemble.Join stubbed: returns its entries joined by |, redundant outer (?:...) layers of a single entry removed (harnesses use single-entry sources, for which this is what rassemble returns)')
        r = i_join(ex, st, g, [args[0], s_const('|')], pos)

        def strip(sv):
            if not sv.is_conc():
                return sv
            t = sv.conc()
            while t.startswith(b'(?:') and t.endswith(b')'):
                depth = 0
                ok = True
                for i, c in enumerate(t):
                    if c == 40:
                        depth += 1
                    elif c == 41:
                        depth -= 1
                        if depth == 0 and i != len(t) - 1:
                            ok = False
                            break
                if not ok:
                    break
                t = t[3:-1]
            return s_const(t)
        return (lift_str(ex, st, [r], strip), NILIFACE)
    if st.heap.get('STUB:join_error'):
        ex.ctx.note('rassemble.Join stubbed: returns an error (malformed entry)')
        return (EMPTY, IfaceV('error:opaque', s_const('rassemble: parse error')))
    stub = st.heap.get('STUB:join')
    if stub is None:
        raise Unsupported('rassemble.Join reached without a stub (use vStubJoin or a nondet stub)')
    ex.ctx.note('rassemble.Join stubbed: returns the harness-provided text, nil error')
    return (stub, NILIFACE)


@harness('vTempDir')
def h_tempdir(ex, st, g, args, pos):
    fs = fs_get(st)
    st.heap['FS'] = fs.with_(n=fs.d['n'] + 1)
    return s_const('/vtmp/%d' % fs.d['n'])


@harness('vWriteFile')
def h_writefile(ex, st, g, args, pos):
    fs = fs_get(st)
    files = dict(fs.d['files'])
    files[cpath(args[0])] = (True, args[1])
    st.heap['FS'] = fs.with_(files=files)
    return None


@harness('vReadFile')
def h_readfile(ex, st, g, args, pos):
    fs = fs_get(st)
    e = fs.d['files'].get(cpath(args[0]))
    if e is None:
        return s_const('<missing file>')
    return e[1]


@intr('os.ReadFile')
def i_os_readfile(ex, st, g, args, pos):
    fs = fs_get(st)
    e = fs.d['files'].get(cpath(args[0]))
    if e is None:
        return (EMPTY, IfaceV('error:opaque', s_const('open: no such file or directory')))
    present, content = e
    if present is True:
        return (content, NILIFACE)
    err = merge_vals(ex.ctx, st.heap, [(present, NILIFACE), (True, IfaceV('error:opaque', s_const('open: no such file')))])
    return (content, err)


@intr('os.WriteFile')
def i_os_writefile(ex, st, g, args, pos):
    fs = fs_get(st)
    path = cpath(args[0])
    files = dict(fs.d['files'])
    old = files.get(path)
    if old is None or g is True:
        files[path] = (g if old is None else True, args[1])
    else:
        files[path] = (b_or(old[0], g), s_ite(g, args[1], old[1]))
    st.heap['FS'] = fs.with_(files=files)
    ex.ctx.effects.append((g, 'write', (path, args[1])))
    return NILIFACE


# ------------------------------------------------------------------ os.File / bufio.Scanner / bufio.Writer
@intr('os.Open')
def i_os_open(ex, st, g, args, pos):
    fs = fs_get(st)
    if not (isinstance(args[0], Str) and args[0].is_conc()):
        alts = fs_wild_lookup(fs, args[0])
        if not alts:
            raise Unsupported('open of a symbolic path without a wild entry')
        content = EMPTY
        ok = False
        for c, cont, isdir in alts:
            content = s_ite(c, cont, content)
            ok = b_or(ok, b_and(c, b_not(isdir)))
        key = ex.ctx.newobj('file')
        st.heap[key] = LibV('File', path='<wild>', s=[content], longline=None)
        err = merge_vals(ex.ctx, st.heap, [(ok, NILIFACE), (True, IfaceV('error:opaque', s_const('open: error')))])
        return (Ptr(key), err)
    path = cpath(args[0])
    e = fs.d['files'].get(path)
    fault = fs.d.get('open_fail', {}).get(path)
    if e is None:
        return (NIL, IfaceV('error:opaque', s_const('open %s: no such file or directory' % path)))
    key = ex.ctx.newobj('file')
    st.heap[key] = LibV('File', path=path, s=[e[1]], longline=fs.d.get('longline', {}).get(path))
    ok = e[0]
    if fault is not None:
        ok = b_and(ok, b_not(fault))
    if ok is True:
        return (Ptr(key), NILIFACE)
    err = merge_vals(ex.ctx, st.heap, [(ok, NILIFACE), (True, IfaceV('error:opaque', s_const('open: error')))])
    return (Ptr(key), err)


@intr('(*os.File).Close')
def i_file_close(ex, st, g, args, pos):
    return NILIFACE


@intr('os.Stat')
def i_os_stat(ex, st, g, args, pos):
    fs = fs_get(st)
    path = cpath(args[0])
    ex_ = fs.d.get('dirs', {}).get(path)
    if ex_ is None:
        e = fs.d['files'].get(path)
        ex_ = e[0] if e is not None else False
    err = merge_vals(ex.ctx, st.heap, [(ex_, NILIFACE), (True, IfaceV('error:opaque', s_const('stat: no such file or directory')))])
    return (NILIFACE if False else IfaceV('os.fileinfo:opaque', None), err)


def reader_content(ex, st, g, r, pos):
    """content Str (and long-line marker) of an io.Reader value: *os.File, *bytes.Buffer, *bytes.Reader, *strings.Reader"""
    if isinstance(r, IfaceV):
        r = r.v
    o = ex.load(st, g, r, pos)
    if not isinstance(o, LibV) or 's' not in o.d:
        raise Unsupported('reader %r' % (o,))
    return rope_str(o.d['s']), o.d.get('longline')


@intr('bufio.NewScanner')
def i_new_scanner(ex, st, g, args, pos):
    content, longline = reader_content(ex, st, g, args[0], pos)
    key = ex.ctx.newobj('scanner')
    # upper bound on the number of lines: positions that can hold a newline, plus one
    maxlines = 1 + sum(1 for q in range(content.cap) if i_cmp('==', content.b[q], 10, 8, False) is not False)
    st.heap[key] = LibV('Scanner', s=content, pos=0, tok=EMPTY, err=False, line=0, longline=longline, limit=65536, calls=0, maxlines=maxlines)
    return Ptr(key)


@intr('(*bufio.Scanner).Split')
def i_scanner_split(ex, st, g, args, pos):
    f = args[1]
    if not (isinstance(f, FuncV) and f.fn == 'bufio.ScanLines'):
        raise Unsupported('Scanner.Split with a function other than bufio.ScanLines')
    return None


@intr('(*bufio.Scanner).Buffer')
def i_scanner_buffer(ex, st, g, args, pos):
    o = ex.load(st, g, args[0], pos)
    mx = args[2]
    if not is_c(mx):
        raise Unsupported('Scanner.Buffer with symbolic max')
    ex.store(st, g, args[0], o.with_(limit=mx), pos)
    return None


@intr('(*bufio.Scanner).Scan')
def i_scanner_scan(ex, st, g, args, pos):
    o = ex.load(st, g, args[0], pos)
    if isinstance(o, ChoiceV):
        raise Unsupported('merged scanners')
    s = o.d['s']
    p = o.d['pos']
    more = b_and(i_cmp('<', p, s.ln, W, True), b_not(o.d['err']))
    calls = o.d.get('calls', 0)
    if is_c(calls) and calls >= o.d.get('maxlines', 1 << 30):
        more = False
    if more is False:
        ex.store(st, g, args[0], o.with_(tok=EMPTY), pos)
        return False
    # end of line: first '\n' at/after p, else end of data
    vs = vals_of(p, 16)
    generic = vs is None
    if generic:
        vs = [p]
    res = []
    for v in vs:
        e = s.ln
        found = False
        for q in range(s.cap - 1, (v if not generic else 0) - 1, -1):
            hit = b_and(i_cmp('<', q, s.ln, W, True), i_cmp('==', s.b[q], 10, 8, False))
            if generic:
                hit = b_and(hit, i_cmp('<=', p, q, W, True))
            e = ite(hit, q, e, W)
            found = b_or(found, hit)
        if not is_c(e):
            set_ub(e, s.cap)
        tok = s_substr(s, v, e)
        # drop one trailing CR
        hascr = b_and(i_cmp('>', tok.ln, 0, W, True), i_cmp('==', s_byte(tok, i_bin('-', tok.ln, 1, W, True)), 13, 8, False))
        tl = ite(hascr, i_bin('-', tok.ln, 1, W, True), tok.ln, W)
        if not is_c(tl):
            set_ub(tl, tok.cap)
        tok = Str(tok.b, tl)
        nxt = ite(found, i_bin('+', e, 1, W, True), s.ln, W)
        if not is_c(nxt):
            set_ub(nxt, s.cap + 1)
        res.append(((p == v) if (not is_c(p) and not generic) else True, (tok, nxt)))
    tok, nxt = merge_vals(ex.ctx, st.heap, res)
    line = o.d['line']
    # the line marked as longer than the token limit makes Scan stop with an error (contract of bufio.Scanner)
    toolong = False
    ll = o.d.get('longline')
    if ll is not None and o.d['limit'] <= 65536:
        toolong = i_cmp('==', line, ll, W, True) if not isinstance(ll, bool) else False
    if o.d['limit'] < 70000:
        toolong = b_or(toolong, s_eq(tok, s_const(LONG_SENTINEL)))
    ok = b_and(more, b_not(toolong))
    ex.store(st, g, args[0], o.with_(pos=ite(ok, nxt, p, W), tok=s_ite(ok, tok, EMPTY), err=b_or(o.d['err'], b_and(more, toolong)),
                                     line=i_bin('+', line, ite(ok, 1, 0, W), W, True),
                                     calls=(calls + 1) if is_c(calls) else calls), pos)
    return ok


EOF_ERR = IfaceV('error:eof', s_const('EOF'))


@intr('(*bufio.Reader).ReadLine')
def i_reader_readline(ex, st, g, args, pos):
    """contract of bufio.Reader.ReadLine (default 4096-byte buffer): the next line without its end-of-line bytes; a line
    that does not fit into the buffer is delivered in pieces, every piece but the last with isPrefix = true. The sentinel
    line (a line of 70000 bytes) is delivered as two pieces (natively: 18)."""
    o = ex.load(st, g, args[0], pos)
    if isinstance(o, ChoiceV) or not isinstance(o, LibV) or 's' not in o.d:
        raise Unsupported('ReadLine on %r' % (o,))
    s = rope_str(o.d['s'])
    p = o.d.get('rlpos', 0)
    part = o.d.get('rlpart', False)
    more = i_cmp('<', p, s.ln, W, True)
    if more is False:
        return (NILSLICE_BYTES(), False, EOF_ERR)
    e = s.ln
    found = False
    for q in range(s.cap - 1, -1, -1):
        hit = b_and(i_cmp('<', q, s.ln, W, True), i_cmp('==', s.b[q], 10, 8, False), i_cmp('<=', p, q, W, True))
        e = ite(hit, q, e, W)
        found = b_or(found, hit)
    if not is_c(e):
        set_ub(e, s.cap)
    tok = s_substr(s, p, e)
    hascr = b_and(i_cmp('>', tok.ln, 0, W, True), i_cmp('==', s_byte(tok, i_bin('-', tok.ln, 1, W, True)), 13, 8, False))
    tl = ite(hascr, i_bin('-', tok.ln, 1, W, True), tok.ln, W)
    if not is_c(tl):
        set_ub(tl, tok.cap)
    tok = Str(tok.b, tl)
    nxt = ite(found, i_bin('+', e, 1, W, True), s.ln, W)
    if not is_c(nxt):
        set_ub(nxt, s.cap + 1)
    islong = s_eq(tok, s_const(LONG_SENTINEL))
    prefix = b_and(more, islong, b_not(part))          # first piece of the long line: position stays
    adv = b_and(more, b_not(prefix))
    # the returned slice is a VIEW of the reader's buffer, valid until the next read (documented contract): it carries
    # the generation of the read that produced it; gobmc.do_append raises an obligation when a view of an older
    # generation is extended (append(view, ...)) after a later read on the same reader
    gen = o.d.get('rlgen', 0)
    gen1 = (gen + 1) if is_c(gen) else i_bin('+', gen, 1, W, True)
    ex.store(st, g, args[0], o.with_(rlpos=ite(adv, nxt, p, W), rlpart=b_and(more, prefix), rlgen=gen1), pos)
    err = merge_vals(ex.ctx, st.heap, [(more, NILIFACE), (True, EOF_ERR)])
    res = s_ite(more, tok, EMPTY)
    rd = args[0]
    if isinstance(rd, Ptr) and rd.obj is not None:
        res = Str(res.b, res.ln, ('rlview', rd.obj, gen1))
    return (res, prefix, err)


def NILSLICE_BYTES():
    return EMPTY


@intr('(*bufio.Scanner).Text', '(*bufio.Scanner).Bytes')
def i_scanner_text(ex, st, g, args, pos):
    o = ex.load(st, g, args[0], pos)
    return o.d['tok']


@intr('(*bufio.Scanner).Err')
def i_scanner_err(ex, st, g, args, pos):
    o = ex.load(st, g, args[0], pos)
    return merge_vals(ex.ctx, st.heap, [(o.d['err'], IfaceV('error:opaque', s_const('bufio.Scanner: token too long'))), (True, NILIFACE)])


@intr('bufio.NewWriter')
def i_new_writer(ex, st, g, args, pos):
    w = args[0]
    if isinstance(w, IfaceV):
        w = w.v
    key = ex.ctx.newobj('bufw')
    st.heap[key] = LibV('Writer', target=w)
    return Ptr(key)


@intr('(*bufio.Writer).WriteString')
def i_bufw_writestring(ex, st, g, args, pos):
    o = ex.load(st, g, args[0], pos)
    _append_to(ex, st, g, o.d['target'], args[1], pos)
    return (args[1].ln if isinstance(args[1], Str) else 0, NILIFACE)


@intr('(*bufio.Writer).WriteRune')
def i_bufw_writerune(ex, st, g, args, pos):
    o = ex.load(st, g, args[0], pos)
    s = rune_to_str(ex, args[1], (32, True), g, pos)
    _append_to(ex, st, g, o.d['target'], s, pos)
    return (s.ln, NILIFACE)


@intr('(*bufio.Writer).Flush')
def i_bufw_flush(ex, st, g, args, pos):
    return NILIFACE


@intr('io.ReadAll')
def i_readall(ex, st, g, args, pos):
    content, _ = reader_content(ex, st, g, args[0], pos)
    return (content, NILIFACE)


@intr('(*os.File).WriteString')
def i_file_writestring(ex, st, g, args, pos):
    f = args[0]
    ex.ctx.effects.append((g, 'stdout' if (isinstance(f, Ptr) and f.obj == 'STDOUT') else 'filewrite', args[1]))
    return (args[1].ln, NILIFACE)


@intr('github.com/Masterminds/semver/v3.NewVersion')
def i_semver_newversion(ex, st, g, args, pos):
    """accepted iff the string matches the package's own validation regex (constant read from the dependency's SSA);
    further numeric checks of NewVersion are not modelled (over-approximation, confirmed at replay)"""
    hx = ex.prog.consts.get('github.com/Masterminds/semver/v3.semVerRegex')
    if hx is None:
        raise Unsupported('semver validation regex constant not found')
    pat = '^' + bytes.fromhex(hx).decode() + '$'
    ex.ctx.hooks.setdefault('patterns', {})[pat] = pos
    ex.ctx.note('semver.NewVersion modelled by its validation regex ' + pat)
    prog = pike.prog_of(pat)

    def one(s):
        m, _, _ = pike.match(prog, s)
        return (NIL, merge_vals(ex.ctx, st.heap, [(m, NILIFACE), (True, IfaceV('error:opaque', s_const('Invalid Semantic Version')))]))
    return lift_str(ex, st, [args[0]], one)


def _lift_receiver(f):
    def g_(ex, st, g, args, pos):
        if isinstance(args[0], ChoiceV):
            res = []
            for ga, rv in alts_of(args[0]):
                res.append((ga, f(ex, st, b_and(g, ga), [rv] + list(args[1:]), pos)))
            return merge_vals(ex.ctx, st.heap, res)
        return f(ex, st, g, args, pos)
    return g_


for _n in list(INTR):
    if _n.startswith('(*regexp.Regexp).'):
        INTR[_n] = _lift_receiver(INTR[_n])


# ------------------------------------------------------------------ directory walks, glob, write log
def iface_is_nil(v):
    r = False
    for ga, a in alts_of(v):
        if isinstance(a, IfaceV):
            if a.t is None:
                r = b_or(r, ga)
        elif isinstance(a, Ptr) and a.obj is None:
            r = b_or(r, ga)
    return r


def iface_has_type(v, t):
    r = False
    for ga, a in alts_of(v):
        if isinstance(a, IfaceV) and a.t == t:
            r = b_or(r, ga)
    return r


def dirent(name, isdir):
    return IfaceV('verif.dirent', StructV([name, isdir]))


INTR['invoke:verif.dirent.IsDir'] = lambda ex, st, g, args, pos: args[0].f[1]
INTR['invoke:verif.dirent.Name'] = lambda ex, st, g, args, pos: args[0].f[0]


@harness('vWildEntry')
def h_wild_entry(ex, st, g, args, pos):
    """one arbitrary directory entry (symbolic name, symbolic IsDir) directly under a directory; its content is given"""
    fs = fs_get(st)
    wild = dict(fs.d.get('wild', {}))
    wild[cpath(args[0])] = (args[1], args[2], args[3])
    st.heap['FS'] = fs.with_(wild=wild)
    return None


def fs_wild_lookup(fs, path):
    """content of a file addressed by a (partly symbolic) path: matches a registered wild entry"""
    res = []
    for root, (name, isdir, content) in fs.d.get('wild', {}).items():
        full = s_concat(s_const(root + '/'), name)
        res.append((s_eq(path, full), content, isdir))
    return res


_orig_readfile = INTR['os.ReadFile']


@intr('os.ReadFile')
def i_os_readfile2(ex, st, g, args, pos):
    p = args[0]
    if isinstance(p, Str) and p.is_conc():
        return _orig_readfile(ex, st, g, args, pos)
    fs = fs_get(st)
    alts = fs_wild_lookup(fs, p)
    if not alts:
        raise Unsupported('read of a symbolic path without a wild entry')
    content = EMPTY
    ok = False
    for c, cont, isdir in alts:
        content = s_ite(c, cont, content)
        ok = b_or(ok, b_and(c, b_not(isdir)))
    err = merge_vals(ex.ctx, st.heap, [(ok, NILIFACE), (True, IfaceV('error:opaque', s_const('read error')))])
    return (content, err)


_orig_writefile = INTR['os.WriteFile']


@intr('os.WriteFile')
def i_os_writefile2(ex, st, g, args, pos):
    p = args[0]
    ex.ctx.hooks.setdefault('writes', []).append((g, p, args[1]))
    if isinstance(p, Str) and p.is_conc():
        return _orig_writefile(ex, st, g, args, pos)
    ex.ctx.effects.append((g, 'write', ('<symbolic path>', args[1])))
    return NILIFACE


@harness('vStatDir')
def h_stat_dir(ex, st, g, args, pos):
    fs = fs_get(st)
    dirs = dict(fs.d.get('dirs', {}))
    dirs[cpath(args[0])] = args[1]
    st.heap['FS'] = fs.with_(dirs=dirs)
    return None


@harness('vSetStdin')
def h_set_stdin(ex, st, g, args, pos):
    st.heap['STDIN'] = LibV('File', path='<stdin>', s=[args[0]], longline=None)
    return None


@harness('vCaptureStdout')
def h_capture_stdout(ex, st, g, args, pos):
    fn = args[0]
    n0 = len(ex.ctx.effects)
    r, heap2, g2 = ex.call_with_bindings(fn.fn, [], fn.bind, st.heap, g, pos)
    st.heap = heap2
    parts = []
    for ge, kind, payload in ex.ctx.effects[n0:]:
        if kind == 'stdout':
            parts.append(lift_str(ex, st, [payload], lambda s_: s_ite(ge, s_, EMPTY)))
    out = lift_str(ex, st, parts, lambda *ps: s_concat_all(list(ps))) if parts else EMPTY
    return ret(out, g2)


@harness('vStubGlob')
def h_stub_glob(ex, st, g, args, pos):
    """filepath.Glob returns the first n files (sorted) of the given directory, whatever the pattern"""
    fs = fs_get(st)
    d = cpath(args[0])
    n = args[1]
    res = sorted(p for p in fs.d['files'] if p.startswith(d + '/'))[:n]
    st.heap['FS'] = fs.with_(glob_override=res)
    return None


@harness('vSnapshot')
def h_snapshot(ex, st, g, args, pos):
    ex.ctx.hooks['writes0'] = len(ex.ctx.hooks.get('writes', []))
    return None


def _writes(ex):
    return ex.ctx.hooks.get('writes', [])[ex.ctx.hooks.get('writes0', 0):]


@harness('vWriteN')
def h_write_n(ex, st, g, args, pos):
    return len(_writes(ex))


@harness('vWriteGuard')
def h_write_guard(ex, st, g, args, pos):
    return _writes(ex)[args[0]][0]


@harness('vWritePath')
def h_write_path(ex, st, g, args, pos):
    return _writes(ex)[args[0]][1]


@intr('path/filepath.WalkDir')
def i_walkdir(ex, st, g, args, pos):
    root = cpath(args[0])
    fn = args[1]
    fs = fs_get(st)
    # concrete tree under root
    files = sorted(p for p in fs.d['files'] if p.startswith(root + '/'))
    dirs = set(fs.d.get('dirs', {}).keys())
    order = [(root, posixpath.basename(root), True)]
    seen = set()
    for p in files:
        rel = p[len(root) + 1:].split('/')
        for i in range(1, len(rel)):
            d = root + '/' + '/'.join(rel[:i])
            if d not in seen:
                seen.add(d)
                order.append((d, rel[i - 1], True))
        order.append((p, rel[-1], False))
    # lexical order as filepath.WalkDir: directories are walked in place
    def key(e):
        return e[0].split('/')
    order = [order[0]] + sorted(order[1:], key=key)
    entries = [(s_const(pth), s_const(nm), isd) for pth, nm, isd in order]
    wild = fs.d.get('wild', {}).get(root)
    if wild is not None:
        name, isdir, content = wild
        entries.append((s_concat(s_const(root + '/'), name), name, isdir))
    ex.ctx.note('filepath.WalkDir: walks the modelled tree in lexical order, then (if registered) one arbitrary entry with symbolic name and IsDir directly under the root')
    alive = g          # paths on which the walk is still going
    stopped = False    # paths on which the callback returned an error: WalkDir returns it
    result = NILIFACE
    skip_prefix = []   # (guard, directory path) skipped via SkipDir
    for pth, nm, isd in entries:
        if alive is False:
            break
        gg = alive
        for sg, sp in skip_prefix:
            if pth.is_conc() and pth.conc().decode().startswith(sp + '/'):
                gg = b_and(gg, b_not(sg))
        if gg is False:
            continue
        r, heap2, g2 = ex.call_with_bindings(fn.fn, [pth, dirent(nm, isd), NILIFACE], fn.bind, st.heap, gg, pos)
        st.heap = heap2
        not_visited = b_and(alive, b_not(gg))
        if g2 is False:      # the callback never returns on these paths (Fatal / panic): terminals recorded
            alive = not_visited
            continue
        isnil = iface_is_nil(r)
        isskip = iface_has_type(r, 'error:skipdir')
        if isskip is not False and pth.is_conc():
            d = pth.conc().decode() if isd is True else posixpath.dirname(pth.conc().decode())
            skip_prefix.append((b_and(g2, isskip), d))
        stop = b_and(g2, b_not(isnil), b_not(isskip))
        result = merge_vals(ex.ctx, st.heap, [(stop, r), (True, result)])
        stopped = b_or(stopped, stop)
        alive = b_or(not_visited, b_and(g2, b_or(isnil, isskip)))
    return ret(result, b_or(alive, stopped))


@intr('path/filepath.Glob')
def i_glob(ex, st, g, args, pos):
    """patterns of the form DIR/*-XXX-* or DIR/*/NAME.* over the modelled tree (concrete), via fnmatch"""
    import fnmatch
    pat = cpath(args[0])
    fs = fs_get(st)
    res = sorted(p for p in fs.d['files'] if fnmatch.fnmatchcase(p, pat) and p.count('/') == pat.count('/'))
    forced = fs.d.get('glob_override')
    if forced is not None:
        res = forced
    if not res:
        return (NILSLICE, NILIFACE)
    return (mk_slice(ex, st, [s_const(p) for p in res]), NILIFACE)


def path_base_sym(s):
    if s.is_conc():
        return path_base(s)
    # last '/' position is concrete when only the final element is symbolic (names never contain '/')
    last = -1
    for p in range(s.cap):
        c = i_cmp('==', s.b[p], 47, 8, False)
        if c is True:
            last = p
        elif c is not False:
            raise Unsupported('path.Base: symbolic separator')
    return s_substr(s, last + 1, s.ln)


INTR['path.Base'] = lambda ex, st, g, args, pos: lift_str(ex, st, [args[0]], path_base_sym)
INTR['path/filepath.Base'] = INTR['path.Base']


@intr('math.Max')
def i_math_max(ex, st, g, args, pos):
    if all(isinstance(a, float) for a in args):
        return max(args)
    raise Unsupported('math.Max on symbolic floats')


@intr('math.Min')
def i_math_min(ex, st, g, args, pos):
    if all(isinstance(a, float) for a in args):
        return min(args)
    raise Unsupported('math.Min on symbolic floats')


@intr('math.Ceil')
def i_math_ceil(ex, st, g, args, pos):
    import math
    if isinstance(args[0], float):
        return float(math.ceil(args[0]))
    raise Unsupported('math.Ceil on symbolic float')


@intr('dario.cat/mergo.Merge')
def i_mergo_merge(ex, st, g, args, pos):
    """mergo.Merge(&dst, src) for map[string]string: keys of src are added unless dst already has a non-empty value"""
    dstp, src = args[0], args[1]
    if isinstance(dstp, IfaceV):
        dstp = dstp.v
    if isinstance(src, IfaceV):
        src = src.v
    dst = ex.load(st, g, dstp, pos)
    if not (isinstance(src, Ptr) and isinstance(dst, Ptr)):
        raise Unsupported('mergo.Merge on non-map values')
    if src.obj is None:
        return NILIFACE
    ex.ctx.note('mergo.Merge modelled for map[string]string: existing non-empty values of the destination win')
    for (p, k, v) in st.heap[src.obj].entries:
        old, ok = ex.map_lookup(st, g, dst, k, EMPTY, pos)
        keep = b_and(ok, b_not(s_eq(old, EMPTY)) if isinstance(old, Str) else ok)
        newv = merge_vals(ex.ctx, st.heap, [(keep, old), (True, v)])
        if p is not False:
            if p is True:
                ex.map_update(st, g, dst, k, newv, pos)
            else:
                raise Unsupported('mergo.Merge with conditionally present source entries')
    return NILIFACE


def install(ctx):
    ctx.intrinsics.update(INTR)
