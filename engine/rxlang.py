"""E3: regular-language queries over unbounded strings.
Go regexp/syntax AST (from rxtool, exactly as Go parses the text) -> SMT-LIB RegLan, with search semantics
(ModSecurity's @rx is unanchored) and anchors handled by framing the subject as  B s E  with two marker code
points outside the alphabet.  Queries are decided by z3 5.1.0 (z3-new CLI), one process per query with a
watchdog; equivalence is asked in the single-membership form (symmetric difference), never as xor of memberships.
"""
import json
import os
import subprocess
import time

HERE = os.path.dirname(os.path.abspath(__file__))
RXTOOL = os.path.join(HERE, '..', '.build', 'rxtool')

LO, HI = 0x01, 0x2FFFD          # compared alphabet (minus VT)
VT = 0x0B
MARK_B, MARK_E = 0x2FFFE, 0x2FFFF

# regexp/syntax flags
FOLDCASE, PERL = 1, 0xD4 | 0x2 | 0x8   # Perl = ClassNL | OneLine | PerlX | UnicodeGroups (0xD4); we pass syntax.Perl numerically below
SYNTAX_PERL = 212  # syntax.Perl


class Unsupported(Exception):
    pass


def ch(r):
    return '\\u{%x}' % r


def class_a(ranges, with_vt=False):
    """ranges: flat list lo,hi,... ; intersected with the alphabet"""
    parts = []

    def add(a, b):
        if a > b:
            return
        if a == b:
            parts.append('(str.to_re "%s")' % ch(a))
        else:
            parts.append('(re.range "%s" "%s")' % (ch(a), ch(b)))
    for i in range(0, len(ranges) - 1, 2):
        a, b = max(ranges[i], LO), min(ranges[i + 1], HI)
        if a > b:
            continue
        if not with_vt and a <= VT <= b:
            add(a, VT - 1)
            add(VT + 1, b)
        else:
            add(a, b)
    if not parts:
        return 're.none'
    if len(parts) == 1:
        return parts[0]
    return '(re.union %s)' % ' '.join(parts)


ALL_A = class_a([0, 0x10FFFF])

_fold_cache = {}


def simple_fold_orbit(c):
    """orbit of unicode.SimpleFold for the code points we meet (ASCII letters, plus the two special Latin cases)"""
    o = _fold_cache.get(c)
    if o is None:
        s = {c}
        chs = chr(c)
        for x in (chs.lower(), chs.upper()):
            if len(x) == 1:
                s.add(ord(x))
        if c in (0x4B, 0x6B):
            s.add(0x212A)      # Kelvin sign
        if c in (0x53, 0x73):
            s.add(0x17F)       # long s
        o = _fold_cache[c] = sorted(s)
    return o


def tr(n):
    op = n['op']
    sub = n.get('sub') or []
    if op == 'NoMatch':
        return 're.none'
    if op == 'EmptyMatch':
        return '(str.to_re "")'
    if op == 'Literal':
        parts = []
        for c in n['rune']:
            if n['flags'] & FOLDCASE:
                rs = []
                for f in simple_fold_orbit(c):
                    rs += [f, f]
                parts.append(class_a(rs))
            else:
                parts.append(class_a([c, c]))
        return parts[0] if len(parts) == 1 else '(re.++ %s)' % ' '.join(parts)
    if op == 'CharClass':
        return class_a(n.get('rune') or [])
    if op == 'AnyCharNotNL':
        return class_a([0, 9, 11, 0x10FFFF])
    if op == 'AnyChar':
        return class_a([0, 0x10FFFF])
    if op == 'BeginText':
        return '(str.to_re "%s")' % ch(MARK_B)
    if op == 'EndText':
        return '(str.to_re "%s")' % ch(MARK_E)
    if op == 'Capture':
        return tr(sub[0])
    if op == 'Star':
        return '(re.* %s)' % tr(sub[0])
    if op == 'Plus':
        return '(re.+ %s)' % tr(sub[0])
    if op == 'Quest':
        return '(re.opt %s)' % tr(sub[0])
    if op == 'Repeat':
        s = tr(sub[0])
        if n.get('max', 0) < 0:
            if n.get('min', 0) == 0:
                return '(re.* %s)' % s
            return '(re.++ ((_ re.^ %d) %s) (re.* %s))' % (n['min'], s, s)
        return '((_ re.loop %d %d) %s)' % (n.get('min', 0), n['max'], s)
    if op in ('Concat', 'Alternate'):
        o = 're.++' if op == 'Concat' else 're.union'
        parts = [tr(x) for x in sub]
        return parts[0] if len(parts) == 1 else '(%s %s)' % (o, ' '.join(parts))
    if op in ('BeginLine', 'EndLine', 'WordBoundary', 'NoWordBoundary'):
        raise Unsupported(op)
    raise Unsupported(op)


_ast_cache = {}


def parse_many(patterns, flags=SYNTAX_PERL):
    need = [p for p in patterns if (p, flags) not in _ast_cache]
    if need:
        inp = json.dumps([{'Pattern': p, 'Flags': flags} for p in need])
        out = subprocess.run([RXTOOL, 'ast'], input=inp, capture_output=True, text=True, check=True).stdout
        for p, a in zip(need, json.loads(out)):
            _ast_cache[(p, flags)] = a
    return [_ast_cache[(p, flags)] for p in patterns]


def search_lang(pattern):
    """RegLan of the framed subjects  B s E  in which `pattern` matches somewhere (unanchored search)"""
    ast = parse_many([pattern])[0]
    if isinstance(ast, dict) and ast.get('error'):
        raise Unsupported('does not parse as RE2: ' + ast['error'])
    body = tr(ast)
    return '(re.++ (re.opt (re.++ (str.to_re "%s") (re.* %s))) %s (re.opt (re.++ (re.* %s) (str.to_re "%s"))))' % (ch(MARK_B), ALL_A, body, ALL_A, ch(MARK_E))


def full_lang(pattern):
    """RegLan of the strings the pattern matches entirely (no framing); anchors unsupported here"""
    ast = parse_many([pattern])[0]
    if isinstance(ast, dict) and ast.get('error'):
        raise Unsupported('does not parse as RE2: ' + ast['error'])
    return tr(ast)


FRAME = '(re.++ (str.to_re "%s") (re.* %s) (str.to_re "%s"))' % (ch(MARK_B), ALL_A, ch(MARK_E))


def query(kind, r1, r2, framed=True):
    """SMT-LIB2 text: kind in {'equiv', 'subset'} (subset: L(r1) subset of L(r2))"""
    lines = ['(declare-const w String)', '(define-fun R1 () RegLan %s)' % r1, '(define-fun R2 () RegLan %s)' % r2]
    if framed:
        lines.append('(assert (str.in_re w %s))' % FRAME)
    if kind == 'equiv':
        lines.append('(assert (str.in_re w (re.union (re.inter R1 (re.comp R2)) (re.inter R2 (re.comp R1)))))')
    else:
        lines.append('(assert (str.in_re w (re.inter R1 (re.comp R2))))')
    lines += ['(check-sat)', '(get-value (w))']
    return '\n'.join(lines) + '\n'


def unescape_smt(s):
    out = []
    i = 0
    while i < len(s):
        if s.startswith('\\u{', i):
            j = s.index('}', i)
            out.append(chr(int(s[i + 3:j], 16)))
            i = j + 1
        else:
            out.append(s[i])
            i += 1
    return ''.join(out)


def decide(smt2, timeout_s=30, solver='z3-new'):
    """returns (verdict, witness or None, seconds)"""
    t = time.time()
    cmd = {'z3-new': ['z3-new', '-in', '-T:%d' % timeout_s], 'z3': ['z3', '-in', '-T:%d' % timeout_s],
           'cvc5': ['cvc5', '--lang=smt2', '--strings-exp', '--produce-models', '--tlimit=%d' % (timeout_s * 1000)]}[solver]
    if solver == 'cvc5':
        smt2 = '(set-logic QF_SLIA)\n' + smt2
    try:
        r = subprocess.run(cmd, input=smt2, capture_output=True, text=True, timeout=timeout_s + 5)
    except subprocess.TimeoutExpired:
        return 'unknown', None, time.time() - t
    out = r.stdout.strip().split('\n')
    dt = time.time() - t
    if not out or '(error' in r.stdout.split('\n')[0]:
        return 'error', r.stdout[:300], dt
    v = out[0].strip()
    if v == 'sat':
        w = None
        rest = '\n'.join(out[1:])
        if '"' in rest:
            w = unescape_smt(rest[rest.index('"') + 1:rest.rindex('"')].replace('""', '"'))
            # strip the frame markers
            w = w.replace(chr(MARK_B), '').replace(chr(MARK_E), '')
        return 'sat', w, dt
    if v == 'unsat':
        return 'unsat', None, dt
    return 'unknown', None, dt


def equivalent(p1, p2, timeout_s=30):
    """search-language equivalence of two regex texts; returns (verdict, witness, seconds)"""
    return decide(query('equiv', search_lang(p1), search_lang(p2)), timeout_s)
